// simgo instruments a scratch copy of the b6 module for deterministic
// simulation. It rewrites source text in place by splicing (never
// re-printing the AST), so comments, build constraints and line numbers are
// preserved: every inserted fragment stays on the line of the construct it
// replaces.
//
// Usage: simgo -dir <module root of the scratch copy> [-preempt file,file,...] [-report out.json]
//
// Rules (DESIGN.md §3.2):
//
//	R1  go f(a)              -> simrt.Go1("site", f, a)
//	R2  ch <- v              -> simrt.Send("site", ch, v)
//	R3  <-ch ; v, ok := <-ch -> simrt.Recv / simrt.Recv2
//	R4  range ch             -> range simrt.RangeChan("site", ch)
//	R5  close(ch)            -> simrt.Close("site", ch)
//	R6  select {…}           -> switch c0, c1 := simrt.CaseRecv(a), simrt.CaseSend(b, v); simrt.Select("site", hasDefault, c0, c1) {…}
//	R7  range m (map)        -> range simrt.RangeMap("site", m)
//	R8  import "sync"        -> sync "verif/simrt/ssync"
//	R9  import errgroup      -> errgroup "verif/simrt/serrgroup"
//	R10 import "math/rand"   -> rand "verif/simrt/srand"
//	R11 runtime.NumCPU()     -> simrt.NumCPU()
//	R12 selected constants   -> simrt.KnobInt("name", const)
//	R13 function entry / loop head in -preempt files -> simrt.P("site")
//
// Anything it does not understand is a hard error (exit 2).
package main

import (
	"encoding/json"
	"flag"
	"fmt"
	"go/ast"
	"go/parser"
	"go/token"
	"go/types"
	"os"
	"path/filepath"
	"sort"
	"strconv"
	"strings"

	"golang.org/x/tools/go/packages"
)

type edit struct {
	start, end int // byte offsets; start==end is an insertion
	text       string
	seq        int
}

type fileRW struct {
	path    string
	rel     string
	src     []byte
	tf      *token.File
	edits   []edit
	needRT  bool
	nextSeq int
}

func (f *fileRW) off(p token.Pos) int { return f.tf.Offset(p) }

func (f *fileRW) replace(start, end token.Pos, text string) {
	f.edits = append(f.edits, edit{f.off(start), f.off(end), text, f.nextSeq})
	f.nextSeq++
}

func (f *fileRW) insert(at token.Pos, text string) { f.replace(at, at, text) }

func (f *fileRW) site(p token.Pos) string {
	pos := f.tf.Position(p)
	return strconv.Quote(fmt.Sprintf("%s:%d", f.rel, pos.Line))
}

// render returns src[start:end] with the edits that lie inside it applied.
// skip lists edits (by seq) not to apply (used when text is moved).
func (f *fileRW) render(start, end int) string {
	var es []edit
	for _, e := range f.edits {
		if e.start >= start && e.end <= end {
			es = append(es, e)
		}
	}
	sort.SliceStable(es, func(i, j int) bool {
		if es[i].start != es[j].start {
			return es[i].start < es[j].start
		}
		// insertions at the same point: closing parens (inserted at an End)
		// of inner nodes come before those of outer nodes, opening wrappers of
		// outer nodes before inner. We rely on seq: outer nodes are visited
		// first (pre-order), so for openers lower seq first; for closers
		// higher seq first. Distinguish by kind.
		ci, cj := isCloser(es[i]), isCloser(es[j])
		if ci != cj {
			return ci // closers of previous nodes before openers of next
		}
		if ci {
			return es[i].seq > es[j].seq
		}
		return es[i].seq < es[j].seq
	})
	var b strings.Builder
	cur := start
	for _, e := range es {
		if e.start < cur {
			fatalf("%s: overlapping edits at offset %d (%q)", f.rel, e.start, e.text)
		}
		b.Write(f.src[cur:e.start])
		b.WriteString(e.text)
		cur = e.end
	}
	b.Write(f.src[cur:end])
	return b.String()
}

func isCloser(e edit) bool { return e.start == e.end && strings.HasPrefix(e.text, ")") }

func fatalf(format string, args ...any) {
	fmt.Fprintf(os.Stderr, "simgo: "+format+"\n", args...)
	os.Exit(2)
}

type report struct {
	Files       int            `json:"files"`
	Rules       map[string]int `json:"rules"`
	MapKeyTypes map[string]int `json:"map_key_types"`
	Skipped     []string       `json:"skipped_packages"`
}

var knobConsts = map[string]string{
	// package path + "." + const name -> knob name
	"diagonal.works/b6/ingest/compact.FeaturesByIDCacheSize": "FeaturesByIDCacheSize",
	"diagonal.works/b6/ingest/compact.maxEncodedFeatureSize": "maxEncodedFeatureSize",
}

func main() {
	dir := flag.String("dir", "", "module root of the scratch copy")
	preempt := flag.String("preempt", "", "comma-separated module-relative files that get R13 preemption points")
	reportPath := flag.String("report", "", "write a JSON report here")
	flag.Parse()
	if *dir == "" {
		fatalf("-dir required")
	}
	abs, err := filepath.Abs(*dir)
	if err != nil {
		fatalf("%v", err)
	}
	preemptFiles := map[string]bool{}
	for _, p := range strings.Split(*preempt, ",") {
		if p != "" {
			preemptFiles[p] = true
		}
	}
	cfg := &packages.Config{
		Mode:       packages.NeedName | packages.NeedFiles | packages.NeedCompiledGoFiles | packages.NeedSyntax | packages.NeedTypes | packages.NeedTypesInfo | packages.NeedImports,
		Dir:        abs,
		Tests:      false,
		BuildFlags: []string{"-tags=verif"},
	}
	pkgs, err := packages.Load(cfg, "./...")
	if err != nil {
		fatalf("load: %v", err)
	}
	rep := &report{Rules: map[string]int{}, MapKeyTypes: map[string]int{}}
	for _, p := range pkgs {
		if skipPackage(p.PkgPath) {
			rep.Skipped = append(rep.Skipped, p.PkgPath)
			continue
		}
		if len(p.Errors) > 0 {
			for _, e := range p.Errors {
				fmt.Fprintf(os.Stderr, "simgo: %s: %v\n", p.PkgPath, e)
			}
			fatalf("package %s does not type-check", p.PkgPath)
		}
		for i, af := range p.Syntax {
			path := p.CompiledGoFiles[i]
			if !strings.HasSuffix(path, ".go") || !strings.HasPrefix(path, abs) {
				fatalf("unexpected file %s in %s", path, p.PkgPath)
			}
			rel, _ := filepath.Rel(abs, path)
			src, err := os.ReadFile(path)
			if err != nil {
				fatalf("%v", err)
			}
			f := &fileRW{path: path, rel: rel, src: src, tf: p.Fset.File(af.Pos())}
			rewriteFile(f, af, p, rep, preemptFiles[rel])
			if len(f.edits) == 0 {
				continue
			}
			out := f.render(0, len(src))
			if err := os.WriteFile(path, []byte(out), 0o644); err != nil {
				fatalf("%v", err)
			}
			rep.Files++
		}
	}
	// Test files: import swap only (R8-R10), so that the repository's own
	// tests still compile against the instrumented packages (fidelity
	// self-test). No type information needed.
	for _, p := range pkgs {
		if skipPackage(p.PkgPath) || len(p.GoFiles) == 0 {
			continue
		}
		dir := filepath.Dir(p.GoFiles[0])
		matches, _ := filepath.Glob(filepath.Join(dir, "*_test.go"))
		for _, path := range matches {
			swapTestImports(path, abs)
		}
	}
	if *reportPath != "" {
		b, _ := json.MarshalIndent(rep, "", " ")
		os.WriteFile(*reportPath, b, 0o644)
	}
}

func swapTestImports(path, abs string) {
	src, err := os.ReadFile(path)
	if err != nil {
		fatalf("%v", err)
	}
	fset := token.NewFileSet()
	af, err := parser.ParseFile(fset, path, src, parser.ImportsOnly)
	if err != nil {
		fatalf("%v", err)
	}
	rel, _ := filepath.Rel(abs, path)
	f := &fileRW{path: path, rel: rel, src: src, tf: fset.File(af.Pos())}
	rewriteImports(f, af, &report{Rules: map[string]int{}})
	if len(f.edits) > 0 {
		if err := os.WriteFile(path, []byte(f.render(0, len(src))), 0o644); err != nil {
			fatalf("%v", err)
		}
	}
}

func skipPackage(path string) bool {
	const mod = "diagonal.works/b6"
	if !strings.HasPrefix(path, mod) {
		return true
	}
	rel := strings.TrimPrefix(strings.TrimPrefix(path, mod), "/")
	switch {
	case strings.HasPrefix(rel, "cmd/"), rel == "proto", rel == "osm/proto", rel == "ingest/gdal":
		return true
	}
	return false
}

func rewriteFile(f *fileRW, af *ast.File, p *packages.Package, rep *report, preempt bool) {
	info := p.TypesInfo
	rewriteImports(f, af, rep)
	rewriteBody(f, af, info, rep, preempt)
}

// rewriteImports applies R8-R10.
func rewriteImports(f *fileRW, af *ast.File, rep *report) {
	for _, im := range af.Imports {
		path, _ := strconv.Unquote(im.Path.Value)
		var repl, defName string
		switch path {
		case "sync":
			repl, defName = "verif/simrt/ssync", "sync"
			rep.Rules["R8"]++
		case "golang.org/x/sync/errgroup":
			repl, defName = "verif/simrt/serrgroup", "errgroup"
			rep.Rules["R9"]++
		case "math/rand":
			repl, defName = "verif/simrt/srand", "rand"
			rep.Rules["R10"]++
		default:
			continue
		}
		if im.Name != nil {
			f.replace(im.Path.Pos(), im.Path.End(), strconv.Quote(repl))
		} else {
			f.replace(im.Path.Pos(), im.Path.End(), defName+" "+strconv.Quote(repl))
		}
	}
}

func rewriteBody(f *fileRW, af *ast.File, info *types.Info, rep *report, preempt bool) {
	skipRecv := map[ast.Node]bool{} // comm operations owned by a select rewrite
	skipSend := map[ast.Node]bool{}

	var visit func(n ast.Node) bool
	visit = func(n ast.Node) bool {
		switch n := n.(type) {
		case *ast.FuncDecl:
			if preempt && n.Body != nil {
				f.insert(n.Body.Lbrace+1, " simrt.P("+f.site(n.Body.Lbrace)+");")
				f.needRT = true
				rep.Rules["R13"]++
			}
		case *ast.ForStmt:
			if preempt {
				f.insert(n.Body.Lbrace+1, " simrt.P("+f.site(n.Body.Lbrace)+");")
				f.needRT = true
				rep.Rules["R13"]++
			}
		case *ast.GoStmt:
			rewriteGo(f, n, info, rep)
		case *ast.SendStmt:
			if !skipSend[n] {
				f.insert(n.Chan.Pos(), "simrt.Send("+f.site(n.Pos())+", ")
				f.replace(n.Arrow, n.Arrow+2, ", ")
				f.insert(n.Value.End(), ")")
				f.needRT = true
				rep.Rules["R2"]++
			}
		case *ast.AssignStmt:
			if len(n.Lhs) == 2 && len(n.Rhs) == 1 {
				if u, ok := unparen(n.Rhs[0]).(*ast.UnaryExpr); ok && u.Op == token.ARROW && !skipRecv[u] {
					f.replace(u.OpPos, u.OpPos+2, "simrt.Recv2("+f.site(u.Pos())+", ")
					f.insert(u.X.End(), ")")
					f.needRT = true
					skipRecv[u] = true
					rep.Rules["R3"]++
				}
			}
		case *ast.ValueSpec:
			if len(n.Names) == 2 && len(n.Values) == 1 {
				if u, ok := unparen(n.Values[0]).(*ast.UnaryExpr); ok && u.Op == token.ARROW && !skipRecv[u] {
					f.replace(u.OpPos, u.OpPos+2, "simrt.Recv2("+f.site(u.Pos())+", ")
					f.insert(u.X.End(), ")")
					f.needRT = true
					skipRecv[u] = true
					rep.Rules["R3"]++
				}
			}
		case *ast.UnaryExpr:
			if n.Op == token.ARROW && !skipRecv[n] {
				f.replace(n.OpPos, n.OpPos+2, "simrt.Recv("+f.site(n.Pos())+", ")
				f.insert(n.X.End(), ")")
				f.needRT = true
				rep.Rules["R3"]++
			}
		case *ast.RangeStmt:
			if preempt {
				f.insert(n.Body.Lbrace+1, " simrt.P("+f.site(n.Body.Lbrace)+");")
				f.needRT = true
				rep.Rules["R13"]++
			}
			tv, ok := info.Types[n.X]
			if !ok {
				fatalf("%s: no type for range operand", f.site(n.Pos()))
			}
			switch ut := tv.Type.Underlying().(type) {
			case *types.Chan:
				f.insert(n.X.Pos(), "simrt.RangeChan("+f.site(n.Pos())+", ")
				f.insert(n.X.End(), ")")
				f.needRT = true
				rep.Rules["R4"]++
			case *types.Map:
				f.insert(n.X.Pos(), "simrt.RangeMap("+f.site(n.Pos())+", ")
				f.insert(n.X.End(), ")")
				f.needRT = true
				rep.Rules["R7"]++
				rep.MapKeyTypes[ut.Key().String()]++
			case *types.Pointer:
				// range over *array: untouched
			}
		case *ast.CallExpr:
			if id, ok := n.Fun.(*ast.Ident); ok && id.Name == "close" && len(n.Args) == 1 {
				if _, isBuiltin := info.Uses[id].(*types.Builtin); isBuiltin {
					f.replace(id.Pos(), id.End(), "simrt.Close")
					f.insert(n.Lparen+1, f.site(n.Pos())+", ")
					f.needRT = true
					rep.Rules["R5"]++
				}
			}
			if sel, ok := n.Fun.(*ast.SelectorExpr); ok && sel.Sel.Name == "NumCPU" && len(n.Args) == 0 {
				if fn, ok := info.Uses[sel.Sel].(*types.Func); ok && fn.Pkg() != nil && fn.Pkg().Path() == "runtime" {
					// keep `runtime` referenced so the import stays used
					f.replace(n.Pos(), n.End(), "simrt.NumCPUOr("+f.render(f.off(sel.Pos()), f.off(sel.End()))+")")
					f.needRT = true
					rep.Rules["R11"]++
				}
			}
		case *ast.Ident:
			if c, ok := info.Uses[n].(*types.Const); ok && c.Pkg() != nil {
				if knob, ok := knobConsts[c.Pkg().Path()+"."+c.Name()]; ok {
					f.replace(n.Pos(), n.End(), "simrt.KnobInt("+strconv.Quote(knob)+", "+n.Name+")")
					f.needRT = true
					rep.Rules["R12"]++
				}
			}
		case *ast.SelectorExpr:
			// pkg.Const knob uses from other packages
			if c, ok := info.Uses[n.Sel].(*types.Const); ok && c.Pkg() != nil {
				if knob, ok := knobConsts[c.Pkg().Path()+"."+c.Name()]; ok {
					if _, isPkg := info.Uses[identOf(n.X)].(*types.PkgName); isPkg {
						f.replace(n.Pos(), n.End(), "simrt.KnobInt("+strconv.Quote(knob)+", "+string(f.src[f.off(n.Pos()):f.off(n.End())])+")")
						f.needRT = true
						rep.Rules["R12"]++
						return false
					}
				}
			}
		case *ast.SelectStmt:
			rewriteSelect(f, n, info, rep, skipRecv, skipSend, visit)
			return false
		}
		return true
	}
	ast.Inspect(af, visit)
	if f.needRT {
		// same line as the package clause: line numbers are preserved
		f.insert(af.Name.End(), "; import simrt \"verif/simrt\"")
	}
}

func identOf(e ast.Expr) *ast.Ident {
	id, _ := e.(*ast.Ident)
	return id
}

func unparen(e ast.Expr) ast.Expr {
	for {
		p, ok := e.(*ast.ParenExpr)
		if !ok {
			return e
		}
		e = p.X
	}
}

func rewriteGo(f *fileRW, n *ast.GoStmt, info *types.Info, rep *report) {
	call := n.Call
	tv, ok := info.Types[call.Fun]
	if !ok {
		fatalf("%s: no type for go call", f.site(n.Pos()))
	}
	sig, ok := tv.Type.Underlying().(*types.Signature)
	if !ok {
		fatalf("%s: go statement on a non-function (conversion or builtin) is not supported", f.site(n.Pos()))
	}
	if sig.Results().Len() != 0 {
		fatalf("%s: go statement on a function with results is not supported", f.site(n.Pos()))
	}
	if sig.Variadic() || call.Ellipsis.IsValid() {
		fatalf("%s: go statement on a variadic function is not supported", f.site(n.Pos()))
	}
	k := len(call.Args)
	if k > 3 {
		fatalf("%s: go statement with %d arguments is not supported", f.site(n.Pos()), k)
	}
	// `go ` keyword up to the function expression
	f.replace(n.Go, call.Fun.Pos(), fmt.Sprintf("simrt.Go%d(%s, ", k, f.site(n.Pos())))
	if k == 0 {
		f.replace(call.Lparen, call.Lparen+1, "")
	} else {
		f.replace(call.Lparen, call.Lparen+1, ", ")
	}
	f.needRT = true
	rep.Rules["R1"]++
}

func rewriteSelect(f *fileRW, n *ast.SelectStmt, info *types.Info, rep *report, skipRecv, skipSend map[ast.Node]bool, visit func(ast.Node) bool) {
	// First rewrite everything nested (operands and bodies), marking the
	// clause-level comm operations as owned by this select.
	type clause struct {
		cc     *ast.CommClause
		recv   *ast.UnaryExpr
		send   *ast.SendStmt
		assign *ast.AssignStmt
	}
	var cls []clause
	hasDefault := false
	for _, s := range n.Body.List {
		cc := s.(*ast.CommClause)
		c := clause{cc: cc}
		switch comm := cc.Comm.(type) {
		case nil:
			hasDefault = true
		case *ast.SendStmt:
			c.send = comm
			skipSend[comm] = true
		case *ast.ExprStmt:
			u, ok := unparen(comm.X).(*ast.UnaryExpr)
			if !ok || u.Op != token.ARROW {
				fatalf("%s: unsupported select clause", f.site(cc.Pos()))
			}
			c.recv = u
			skipRecv[u] = true
		case *ast.AssignStmt:
			if len(comm.Rhs) != 1 {
				fatalf("%s: unsupported select clause", f.site(cc.Pos()))
			}
			u, ok := unparen(comm.Rhs[0]).(*ast.UnaryExpr)
			if !ok || u.Op != token.ARROW {
				fatalf("%s: unsupported select clause", f.site(cc.Pos()))
			}
			c.recv = u
			c.assign = comm
			skipRecv[u] = true
		default:
			fatalf("%s: unsupported select clause", f.site(cc.Pos()))
		}
		cls = append(cls, c)
	}
	// nested rewriting (operands first so render() of operands sees their edits)
	for _, c := range cls {
		if c.recv != nil {
			ast.Inspect(c.recv.X, visit)
		}
		if c.send != nil {
			ast.Inspect(c.send.Chan, visit)
			ast.Inspect(c.send.Value, visit)
		}
		if c.assign != nil {
			for _, l := range c.assign.Lhs {
				ast.Inspect(l, visit)
			}
		}
		for _, s := range c.cc.Body {
			ast.Inspect(s, visit)
		}
	}
	prefix := fmt.Sprintf("_s%dc", f.off(n.Pos()))
	var names, ctors []string
	idx := 0
	for _, c := range cls {
		cc := c.cc
		if cc.Comm == nil {
			continue // default: stays as it is
		}
		name := prefix + strconv.Itoa(idx)
		names = append(names, name)
		var head string
		switch {
		case c.send != nil:
			ctors = append(ctors, "simrt.CaseSend("+f.render(f.off(c.send.Chan.Pos()), f.off(c.send.Chan.End()))+", "+f.render(f.off(c.send.Value.Pos()), f.off(c.send.Value.End()))+")")
			head = fmt.Sprintf("case %d:", idx)
		case c.recv != nil:
			ctors = append(ctors, "simrt.CaseRecv("+f.render(f.off(c.recv.X.Pos()), f.off(c.recv.X.End()))+")")
			head = fmt.Sprintf("case %d:", idx)
			if c.assign != nil {
				var lhs []string
				for _, l := range c.assign.Lhs {
					lhs = append(lhs, f.render(f.off(l.Pos()), f.off(l.End())))
				}
				rhs := name + ".V"
				if len(lhs) == 2 {
					rhs += ", " + name + ".OK"
				}
				head += " " + strings.Join(lhs, ", ") + " " + c.assign.Tok.String() + " " + rhs + ";"
			}
		}
		// Replace `case <comm>:` by head. Edits already recorded inside this
		// range (operand rewrites) are dropped: their text was moved.
		start, end := f.off(cc.Case), f.off(cc.Colon)+1
		kept := f.edits[:0]
		for _, e := range f.edits {
			if e.start >= start && e.end <= end {
				continue
			}
			kept = append(kept, e)
		}
		f.edits = kept
		f.edits = append(f.edits, edit{start, end, head, f.nextSeq})
		f.nextSeq++
		idx++
	}
	var hdr string
	if len(names) > 0 {
		hdr = "switch " + strings.Join(names, ", ") + " := " + strings.Join(ctors, ", ") + "; simrt.Select(" + f.site(n.Pos()) + ", " + strconv.FormatBool(hasDefault) + ", " + strings.Join(names, ", ") + ") "
	} else {
		hdr = "switch simrt.Select(" + f.site(n.Pos()) + ", " + strconv.FormatBool(hasDefault) + ") "
	}
	f.replace(n.Select, n.Body.Lbrace, hdr)
	if !hasDefault {
		// keeps the statement "terminating" when every clause is (a select
		// needs no default for that, a switch does)
		f.insert(n.Body.Rbrace, "default: panic(\"simrt: select without default returned no clause\"); ")
	}
	f.needRT = true
	rep.Rules["R6"]++
}
