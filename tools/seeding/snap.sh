#!/bin/bash
# refresh the snapshot of /verif used for seed evaluation
mkdir -p /var/tmp/vsnap
rsync -a --delete --exclude .cache --exclude replays --exclude .git /verif/ /var/tmp/vsnap/
mkdir -p /var/tmp/vsnap/replays
