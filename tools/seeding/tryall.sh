#!/bin/bash
# usage: tryall.sh name:prop[,prop] ...
for a in "$@"; do
  n=${a%%:*}; ps=${a#*:}
  rm -f /tmp/seed-$n/my.patch
  echo "===== $n ($ps)"
  /verif/tools/try_seed.sh /tmp/seed-$n $n ${ps//,/ } 2>&1 | grep -v "^WARNING conda"
done
