#!/usr/bin/env python3
# usage: wave_meta.py <log>... ; writes seeded/<id>/meta.json from the try logs + descriptions below
import json,re,sys,os
DESC={
'C07-c':("search/tree.go treeListIterator.Advance: the repair path for an iterator whose node was deleted resumes the search from the tree root instead of restarting","an open iterator standing on a value; that value deleted; the next call is Advance(key) (not Next); the deleted value lies below the root and live values lie between it and the root"),
'C12-c':("ingest/mutable.go MutableOverlayWorld.AddTag: the old search token is removed whenever the tag was indexed before, but re-added only when the token changed","a feature already in the overlay; a searchable tag set again to the same token (#key same value, or @key any value); then a tag/key search"),
'C13-c':("ingest/mutable.go MutableOverlayWorld.AddTag: the base feature is looked up (and 'no feature' reported) only for searchable keys","a MergedChange on a BasicMutableWorld with a succeeding part followed by an AddTags part with a plain key on a missing id: the overlay canary accepts it, the real world fails half-way"),
'C14-c':("ingest/mutable.go MutableTagsOverlayWorld.Snapshot folds layers with a shallow clone of the previous layer's map of maps","MutableTagsOverlayWorld; nested snapshots; a feature with a pending modified tag at the first snapshot that is tagged again before the second"),
'C15-c':("ingest/features.go FeatureReferencesByID.RemoveFeature deletes the whole reverse-reference entry when at most one element is left","replacing a feature that references some X twice (closed path, relation listing a member twice) while X has exactly one other referrer"),
'C18-c':("ingest/yaml.go newAreaFromYAML reuses one []*s2.Loop scratch slice across the polygons of an area","an exported area with two or more explicit single-loop polygons"),
'C25-c':("api/vm.go VM.Fork allocates all forked stacks in one backing array; fork i has spare capacity over fork i+1's frames","parent VM stack non-empty (api.Evaluate), >=5 cores, a lambda keeping a value on the stack across a nested call, a worker's first call still in flight when the next starts"),
'C26-c':("ingest/mutable.go MutableOverlayWorld.AddTag: existence of the feature is only checked for searchable keys","add-tag with a plain key on a missing feature through either evaluator (also inside merge-changes)"),
'C27-c':("osm/pbf.go Writer.lookupString gains a one-entry cache that survives the per-block string-table reset","a block boundary where the last string looked up before it equals the first looked up after it"),
'C28-d':("ingest/features.go close(c) moved to the end of feedFeatures, which returns early on cancellation","a failing callback with >=2 goroutines while the feeder still has features to send: the other workers block on a channel that is never closed"),
'C28-e':("ingest/source.go MergedFeatureSource.Read workers became `for s := range c`; the producer returns on cancellation without closing c","a callback error with >=2 worker goroutines while sources remain to be handed out"),
'C35-d':("ingest/mutable.go modifyTags became copy-on-write and appends added tags to the base feature's own slice when nothing was replaced","a base feature whose tag slice has spare capacity (edited in place before), an overlay that only adds plain keys to it, two concurrent readers"),
'C35-e':("encoding/arrays.go ByteArraysBuilder.WriteItem reads and bumps the bucket cursor outside the lock","two builder goroutines writing items into the same bucket at the same moment"),
'C36-c':("search/array.go mapNWithLimit: static partition with run=(n+1)/goroutines drops the tail for >=3 goroutines when (n+1) mod cores >= 2","basic world built with 3+ cores and a token count in the bad residue: the alphabetically last tokens' posting lists stay unsorted"),
'C36-d':("encoding/uint64map.go EachItem hands out runs of buckets with run=buckets/(goroutines*8), dropping the remainder","compact build with a goroutine count that is not a power of two and ids falling in the last buckets"),
'C37-c':("ingest/validate.go ValidateArea: `break` instead of `continue` at an explicit polygon","an area mixing an explicit polygon (first) with a path-based polygon over a missing/open/short path"),
'C37-d':("ingest/mutable.go MutableOverlayWorld.AddFeature: copies of base-only referrers are inserted before re-validation and stay behind after a rejection","overlay over a non-empty base; a first edit rejected at the referrer stage; then a second invalid edit of a point of the same path is accepted"),
'C38-c':("world.go Tags.MergeFrom adopts the incoming slice when capacity is short","re-adding a relation/area already in the world with more tags than the stored capacity, then editing a tag in place on the value passed in"),
'C40-d':("ingest/worlds.go FindOrCreateWorld: the nil-map check and allocation moved before the lock","concurrent first requests on a MutableWorlds whose map is still nil: one overwrites the other's map"),
'C40-e':("grpc/service.go Evaluate: on a failed apply returns after Unlock without re-taking the read lock, so the deferred RUnlock releases a hold it does not own","a change whose Apply fails (alone: fatal RUnlock of unlocked RWMutex; with a reader queued: another evaluation loses its read hold)"),
}
HIST={
'C35-d':"first run missed it: overlay readers only ran over freshly built bases (tag slices with cap == len); C35 now also reads through overlays over a BasicMutableWorld / own snapshot layer that were edited in place, with plain-key additions held as tag modifications",
}

DESC.update({
'C07-d':("search/tree.go rebalanceBeforeDelete stops retracing when the parent's balance after a rotation is non-zero (wrong for double rotations whose inner node had balance +-1)","a delete repaired by a double rotation below the root whose inner node has one specific balance: needs trees of >= 12 values"),
'C12-d':("ingest/mutable.go ModifiedTags.ModifyOrAddTag skips the write when the entry already holds the value (ignoring the deleted flag); RemoveTag flips deleted on the existing entry","base-only feature: AddTag(k=v), RemoveTag(k), AddTag(k=v) with the identical value; or RemoveTag(k) then AddTag(k=\"\")"),
'C13-d':("ingest/mutable.go MutableOverlayWorld.AddFeature copies base-only referrers before validation and removes the copies only when the replaced feature was not already in the overlay","an earlier searchable tag edit copied the feature alone into the overlay; a later replacement of it is rejected because of a base-only referrer"),
'C14-d':("ingest: modifyTags returns the base tags as they are when there are no modifications + NewAreaFeatureFromWorld takes the area's tags without cloning","an area stored in a snapshot layer, copied up by a live searchable tag edit / dependency move, then an existing key overwritten or removed in the live world"),
'C15-d':("ingest/features.go FeatureReferencesByID.AddFeature only looks at the last entry of a referrer list to avoid duplicates","BasicMutableWorld; two relations on a membership cycle sharing a member; replace one while on the cycle (listed twice with the other in between), then replace it again dropping the shared member"),
'C18-d':("ingest/yaml.go ExportChangesAsYAML writes modified features before modified tags","a plain tag edit on a base feature, then a dependency move that drags the feature into the overlay (its stale tag entry stays), then another change to the same key"),
'C25-d':("api/functions/map.go the forked worker contexts carry the errgroup's derived context, which errgroup.Wait cancels on return","a mapped function returning a lazily evaluated, context-checking collection, looked into after the parallel map has wound down"),
'C25-e':("api/functions/map.go dispatcher: `if ok && err == nil` became `if ok`","the source collection's own iterator reports a failing item as (true, err) (lazy map / map-items sources): a phantom item is dispatched"),
'C26-d':("grpc/service.go Evaluate dry-runs the change under the read lock and returns the dry run's (shadowed) error after the real application","a change that passes the dry run but fails when really applied: two overlapping conflicting requests, or a world that fails while mutating"),
'C27-d':("osm/pbf.go decoder scratch structs are copied by value into each decoder goroutine: all share one backing array for node tags","Cores >= 2 and two blocks of tagged nodes decoded concurrently"),
'C28-f':("encoding/uint64map.go EachItem: a worker whose callback fails after another error was recorded returns early, skipping wg.Done()","two callbacks failing on two different workers of one EachItem call"),
'C28-g':("ingest/mutable.go EachModifiedTag polls cancellation once per feature and sends each tag with a plain blocking send","goroutines >= 2, every worker dead (persistent failure) while one feature still has more tags than the channel buffer holds"),
'C35-f':("ingest/compact/world.go relations go through the shared LRU cache; their lazily decoded member list is unsynchronised","two readers obtaining the same relation by id/search and both decoding its members for the first time"),
'C35-g':("ingest/mutable.go modifyTags copy-on-write appends added tags to the base feature's own slice","a base feature whose tag slice has spare capacity, an overlay adding only new keys, two concurrent readers"),
'C36-e':("search/array.go mapNWithLimit static split with chunk=(n+1)/goroutines drops the tail for >= 3 goroutines","basic world built with >= 3 cores and an unlucky token count: last tokens' posting lists unsorted"),
'C36-f':("ingest/compact/build.go Validator.ValidateArea releases the lock between judging an area and queueing it","an area arriving before its path on one goroutine while another goroutine's ValidatePath for that path runs in the gap"),
'C37-e':("ingest/validate.go ValidatePath strips every trailing point equal to the first before validating the loop","a ring that repeats its closing vertex, or a corner moved exactly onto the ring's first vertex"),
'C38-d':("expression.go Set extends a list value with append (original and clone share spare capacity)","a path built point by point, then two holders of the shared array both extended at index len"),
'C40-f':("ingest/worlds.go FindOrCreateWorld with RWMutex: on a lost creation race the loser returns its own unregistered world","two requests for the same not-yet-existing world id overlapping; the second to insert carries a change"),
'C40-g':("api/evaluator.go the change is applied to the world looked up again by id after the lock upgrade","DeleteWorld between the UI evaluator's RUnlock and Lock, and a change that depends on world state"),
})
HIST.update({
'C35-g':"same defect as C35-d; see there",
'C35-d':"missed twice. (1) overlay readers only ran over freshly built bases (tag slices with cap == len): bases edited in place were added. (2) still missed: the C35 scenario built its worlds after generating operations, from specs that commit() had already edited in place, so the overlay's tag edits were no-ops over a base that already held them; worlds are now built from a snapshot of the city, edits are focused on a few features, and readers first run a fmt-free touch pass (fmt's pooled printer orders tasks for the race detector)",
'C15-d':"first run missed it: needs a two-relation cycle sharing a member and two successive shrinking replacements; a cycle gadget with member-by-member edits (25% of mutable-world runs) and incremental relation edits in the generator were added",
'C37-e':"first run missed it: no ring repeated its closing vertex and no corner was ever moved exactly onto the first vertex; both added to the invalid-operation generator",
'C25-d':"first run missed it: mapped functions only returned ints; functions returning lazy collections (looked into on arrival or after the whole result) were added - which also exposed a genuine defect (worker VM shared with returned lazy values), fixed in /repo",
'C25-e':"first run missed it: the harness's failing source iterator only reported (false, err); the (true, err) shape of b6's own lazy collections was added",
})

DESC.update({
'C07-e':("search/tree.go DeleteKey parks the unlinked node in a spare field and Insert reuses it: a deleted node an iterator still stands on becomes live again","an iterator positioned on X, X deleted, then a different key inserted into the same list before the iterator moves"),
'C12-e':("ingest/mutable.go AddTag fast path: a plain tag goes straight into m.tags whenever an entry for the id exists","a base feature with a pending plain-tag edit is copied into the overlay as a referrer of a re-added feature (its m.tags entry stays behind), then gets another plain AddTag"),
'C12-f':("ingest/mutable.go AddTag fast path for plain keys when m.tags already has the id (same mechanism as C12-e, found independently)","plain edit of G, AddFeature of something G references, another plain AddTag on G"),
'C13-e':("ingest/mutable.go AddFeature deletes the replaced feature's pending tag modifications before the referrers are validated","base-only feature with a plain-tag edit pending; a replacement that is valid by itself but rejected because of a referrer"),
'C14-e':("ingest/mutable.go Snapshot keeps the live references map when it is empty (shared with the snapshot)","a snapshot taken while the live layer holds no references, then a live edit that records references, then a reference / Traverse query on the snapshot"),
'C15-e':("ingest/mutable.go AddFeature copies base-only referrers into the overlay before validating them; they stay behind, unregistered, after a rejection","overlay over a non-empty base; a replacement rejected because of a base-only referrer; a later reference query"),
'C18-e':("ingest/yaml.go newCollectionFeatureFromYAML decides 'sorted' with an adapter that swallows comparison errors","a collection with keys of several kinds, exported and imported, then looked up by one of the odd-kind keys"),
'C25-f':("api/functions/map.go Begin caps the worker count at the source's item count","an empty collection with known count and >= 2 cores: Next divides by zero"),
'C26-e':("ingest/change.go MergedChange.Apply: the 'partially applied' error lands in a shadowed variable","a merged change whose dry run passes and whose real application fails (read-only worlds, failing world)"),
'C27-e':("osm/pbf.go the per-block string map starts with the empty string at index 0, which is also the dense-node tag delimiter","a node with an empty tag key"),
'C28-h':("ingest/compact/world.go EachFeature as a table-driven loop: the error of one block is overwritten by the next block of the same type","a callback failing while a non-last block of its feature type is enumerated (several namespaces per type) and not failing again"),
'C28-i':("osm/pbf.go decoders record the result of every blob in a per-goroutine slot: a later successful blob overwrites the error","an item-specific callback failure in a block that has further blocks after it, the failing goroutine taking another blob"),
'C35-h':("ingest/basic.go Finish: validators record broken features with TryLock and merge a local list in a deferred function that runs after wg.Done","two invalid features of one stage recorded at the same instant by different goroutines"),
'C35-i':("ingest/compact/world.go Index.Tokens() memoises the decoded token list unsynchronised and publishes it before filling it","two readers whose first Keyed queries on a fresh compact world overlap"),
'C36-g':("ingest/compact/build.go Validator.ValidateArea releases the lock between judging an area and queueing it (third independent rediscovery)","an area before its last path on one goroutine, that path validated by another in the gap"),
'C36-h':("ingest/validate.go + basic.go: ring validation memoised in a sync.Map whose entry is published before it is filled","two areas sharing a ring that is a valid path but unfit as a ring, validated at the same time by two goroutines"),
'C37-f':("ingest/features.go AreaFeature.References() stops at the first explicit polygon","a mixed area (explicit polygon first, then a path polygon) whose path is later replaced by an open one"),
'C38-e':("world.go Tags.Clone returns the receiver when it is empty (it may still have capacity)","a feature whose tag list was emptied in place, cloned / added; the world's copy gains a tag, then the caller adds one to its own value"),
'C40-h':("ingest/worlds.go FindOrCreateWorld with read-locked fast path: the re-check under the write lock uses the raw (invalid = default) id","two overlapping first requests with an unset root"),
'C40-i':("grpc/service.go Evaluate: a failed apply returns before Unlock / RLock","a change whose Apply fails, with another request queued behind the write lock (deadlock) or alone (fatal RUnlock)"),
})
HIST.update({
'C28-h':"first run missed it: every feature type of the generated compact worlds lived in one namespace, i.e. one block; long point lists are now spread over two namespaces",
})

DESC.update({
'C25-g':("api/functions/map.go worker: an error after the group was cancelled is ignored and the failed call's nil value goes through the send/cancel select","two failing items on different workers, the later-positioned one failing first; the earlier one's worker then wins the send"),
'C25-h':("api/functions/map.go worker contexts carry the errgroup's derived context (per-call forks copy it), cancelled when Wait returns","a mapped function returning a lazy nested map, looked into after the group has finished (no data race)"),
'C26-f':("ingest/worlds.go FindOrCreateWorld: read-locked lookup, then write-locked insert without re-check","two overlapping first requests for the same new world id: the second insert replaces the first world, whose caller was told its change applied"),
'C27-f':("osm/pbf.go shutdown of the multi-core reader: one done marker, the decoder that gets it cancels the others, decoders re-check the context after taking a blob","a decoder holding the last data blob sees the cancel before decoding it: a whole block is dropped silently"),
'C28-j':("ingest/source.go MergedFeatureSource.Read readers became `for s := range c` while the feeder leaves c open on cancellation (no data race)","a callback error with >= 2 readers while sources remain to be handed out"),
'C28-k':("osm/pbf.go decoders poll ctx.Done() non-blockingly and then block in a plain receive","a callback error while another decoder is idle and the reader's post-cancel selects skip the done markers: hang"),
'C35-j':("encoding/uint64map.go EachItem sends the callback error over the cancel channel, which is only read inside the feed loop","a failing callback that is still running when the feeder has handed out the last bucket: EachFeature returns nil"),
'C35-k':("encoding/arrays.go ByteArraysBuilder.WriteItem claims space per buffer instead of per item (every access still locked)","two builder goroutines writing entries into the same bucket, the second between the first one's header and payload"),
'C36-i':("ingest/validate.go + basic.go: ring validation remembered in a mutex-protected map whose entry is claimed (nil error) before the ring is validated","two areas sharing a ring that is unfit as a ring, validated at the same time by two goroutines (no data race)"),
'C36-j':("ingest/compact/build.go Validator.ValidateArea releases the lock between judging and queueing (fourth independent rediscovery)","an area before its last path on one goroutine, that path validated by another in the gap"),
'C40-j':("ingest/worlds.go FindOrCreateWorld with RWMutex builds the world outside the lock, re-checks, and returns its own world when it lost","two overlapping first requests for one new world id, the loser applying a change (no data race)"),
'C40-k':("ingest/worlds.go same mechanism as C40-j / C40-f, found independently","as C40-j"),
})

DESC.update({
'C07-f':("search/tree.go rebalanceBeforeDelete stops retracing when parent.balance != 0 after a rotation (same slip as C07-d, found independently)","a delete repaired by a double rotation below the root whose inner node leans away: >= 12 values"),
'C12-g':("ingest/mutable.go FindFeatures wraps the merged (base + overlay) search results with the plain-tag map instead of the base results only","a base feature with a plain-tag edit is copied up as a referrer (stale m.tags entry stays), the same key is edited again, and the feature is read through a tag search"),
'C13-f':("ingest/mutable.go a shared helper used for the temporary replacement in AddFeature also drops the replaced feature's pending tag modifications","base-only feature with a plain-tag edit, then a replacement valid by itself but rejected because of a referrer"),
'C13-g':("ingest/mutable.go AddFeature re-validates only referrers 'built from' the replaced type (paths for points, areas for paths)","a ring closed by position only with an area on it; a MergedChange on a BasicMutableWorld whose later part moves one of the ring's points: the canary overlay accepts what the real world refuses"),
'C14-f':("ingest: AreaMembers.Clone became shallow + searchable-tag copy-up clones the snapshot layer's own area","an area built from path ids in a snapshot layer, a searchable tag edit on it in the live world, then a replacement with different path ids"),
'C14-g':("ingest/mutable.go MutableTagsOverlayWorld.Snapshot folds layers beyond four with a shallow clone of the previous layer's tag maps","at least five snapshots of a tags-only overlay, a feature tagged just before snapshot N>=4 and again after it"),
'C15-f':("ingest/mutable.go AddFeature walks the referrers only for features that already exist","a relation / collection with a dangling member in a lower layer, the member created later in an upper layer and itself referencing an existing feature that is then queried"),
'C18-f':("ingest/yaml.go export writes feature documents before tag documents (same slip as C18-d, found independently)","plain tag edit on X, replacement of something X references, another edit of the same key"),
'C37-g':("ingest/mutable.go AddFeature skips referrer validation when a point is put where the layer below has it","a point moved away in the overlay, another corner moved so that the ring is only valid with the new position, then the first point moved back exactly"),
'C38-f':("ingest/features.go AreaMembers.MergeFrom grows the path-id list with append (inner slices shared with the caller's value)","re-adding an area with more polygons than the world's copy, then SetPathID on one of the new polygons of the value passed in"),
})
HIST.update({
'C12-g':"C12 compared the ids a tag search returns with the map but stripped the returned features' content; after reading the sub-agent's report and before the first run, C12 was given the check 'tags of a search result == tags of the same feature by id'; caught with it",
'C13-g':"missed twice: first because C13 histories had no ring closed by position only (added: twin-ring additions in C13 histories), then because no merged change moved an end of such a ring after a part that succeeds (added: the last part of a merged change moves a twin-ring end in half of the merged changes built while such a ring exists); caught on the third run (BasicMutableWorld/merged-change-partially-visible); 15000 runs on the unchanged tree stayed clean with the addition",
'C37-g':"missed at the first run: no history moved a point back to exactly the position the layer below has; added the move-back-to-base-position operation to the shared generator; caught on the re-test (MutableOverlayWorld(basic base)/invalid-feature-present)",
'C14-f':"not caught by C14 (the history needs an area by path ids in a snapshot layer + searchable tag edit + replacement with other path ids; C14's generator re-adds areas with the same path ids); caught by C38, whose clone-independence oracle sees the shallow AreaMembers.Clone directly",
'C14-g':"C14 held at most three snapshots of the tags-only overlay; after reading the sub-agent's report and before the first run, one run in four now nests up to eight; caught with it",
})

res={}
cur=None
for path in sys.argv[1:]:
    for line in open(path):
        m=re.match(r'===== (\S+) \((\S+)\)',line)
        if m: cur=m.group(1); res.setdefault(cur,{'props':{}, 'classes':{}, 'existing':None,'demo_with':None,'demo_without':None,'section':None}); res[cur]['section']=None; continue
        if cur is None: continue
        r=res[cur]
        if line.startswith('existing-tests-exit='): r['existing']=int(line.strip().split('=')[1])
        if line.startswith('--- demo with the change'): r['section']='with'
        elif line.startswith('--- demo without the change'): r['section']='without'
        elif line.startswith('--- check'): r['section']='check'
        if r['section']=='with' and (line.startswith('FAIL') or line.startswith('--- FAIL') or 'panic:' in line): r['demo_with']='fails'
        if r['section']=='with' and line.startswith('ok ') and r['demo_with'] is None: r['demo_with']='passes'
        if r['section']=='without' and line.startswith('ok '): r['demo_without']='passes'
        if r['section']=='without' and line.startswith('FAIL'): r['demo_without']='fails'
        m=re.match(r'check-exit (\S+) = (\d+)',line)
        if m: r['props'][m.group(1)]=int(m.group(2))
        m=re.match(r'VIOLATION property=(\S+) replay=\S*/(\S+)\.json',line)
        if m:
            c=re.sub(r'^C\d+-seed\d+-run\d+-','',m.group(2))
            r['classes'].setdefault(m.group(1),[]).append(c)
for name,r in sorted(res.items()):
    d='/verif/seeded/'+name
    if not os.path.isdir(d): continue
    prop=name.split('-')[0]
    caught=[p for p,e in r['props'].items() if e==1]
    meta={"seed":name,"property":prop,"origin":"independent sub-agent given only the property text and its own worktree",
      "what":DESC.get(name,("",""))[0],"needs_to_manifest":DESC.get(name,("",""))[1],
      "confirmed":[f"existing test suite (all packages except cmd/ and ingest/gdal) with the change: exit {r['existing']} (tools/try_seed.sh)",
                   f"the demonstration test under demo/ {r['demo_with']} with the change and {r['demo_without']} without it"],
      "ran":"VERIF_REPO=<worktree with patch.diff applied> ./check <prop> --tier quick, for: "+", ".join(f"{p} (exit {e})" for p,e in r['props'].items()),
      "caught_by":caught,"violation_classes":{p:sorted(set(c))[:6] for p,c in r['classes'].items()}}
    if name in HIST: meta['history']=HIST[name]
    json.dump(meta,open(d+'/meta.json','w'),indent=1)
    print(name,'existing',r['existing'],'demo',r['demo_with'],'/',r['demo_without'],'caught',caught,'props',r['props'])
