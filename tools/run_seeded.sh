#!/bin/bash
# Regression test of the checks' sensitivity: applies every stored seeded
# change (seeded/<id>/patch.diff) to a scratch worktree of /repo's HEAD and
# runs the quick check of the property it was written against; every check is
# expected to exit 1 (VIOLATION). Prints one line per seed.
# usage: tools/run_seeded.sh [seed-id ...]     (default: all)
set -u
cd "$(dirname "$0")/.."
V=$(pwd)
REPO=${VERIF_REPO_BASE:-/repo}
SCRATCH=${VERIF_SCRATCH:-/var/tmp}
ids=("$@")
if [ ${#ids[@]} -eq 0 ]; then ids=($(ls seeded)); fi
miss=0
for id in "${ids[@]}"; do
  prop=${id%%-*}
  wt=$SCRATCH/seedrun-$id
  git -C $REPO worktree remove --force $wt >/dev/null 2>&1
  git -C $REPO worktree add --detach $wt HEAD >/dev/null 2>&1 || { echo "$id: cannot create worktree"; continue; }
  if ! (cd $wt && git apply $V/seeded/$id/patch.diff 2>/dev/null); then
    echo "$id: patch no longer applies to HEAD (skipped)"
    git -C $REPO worktree remove --force $wt >/dev/null 2>&1
    continue
  fi
  out=$(VERIF_REPO=$wt VERIF_QUICK_S=${QUICK_S:-20} ./check $prop --tier quick 2>&1)
  rc=$?
  classes=$(echo "$out" | grep -c '^VIOLATION')
  echo "$id: check $prop exit $rc ($classes violation class(es))"
  [ $rc -ne 1 ] && miss=$((miss+1))
  git -C $REPO worktree remove --force $wt >/dev/null 2>&1
done
git -C $REPO worktree prune
echo "seeds not caught: $miss"
