#!/bin/sh
# dev helper: build harness against /var/tmp/vdev scratch and run one prop quickly
# usage: tools/dev.sh C13 [runs] [seed]
set -e
export GOFLAGS=-mod=mod GOPROXY=off GOSUMDB=off GOTOOLCHAIN=local PATH=/opt/veriftools/go1.26.8/bin:$PATH
H=/var/tmp/vdev/harness
rm -rf $H && mkdir -p $H && cp /verif/harness/*.go $H/
cat > $H/go.mod <<EOM
module verif/harness

go 1.26

require (
	diagonal.works/b6 v0.0.0
	verif/simrt v0.0.0
	github.com/anishathalye/porcupine v1.3.0
)

replace diagonal.works/b6 => /var/tmp/vdev/root/src/diagonal.works/b6

replace verif/simrt => /verif/simrt
EOM
cp /var/tmp/vdev/root/src/diagonal.works/b6/go.sum $H/
cd $H && go test -c -vet=off -tags verif $RACE -o /var/tmp/vdev/harness.test . 
mkdir -p /var/tmp/vdev/out
VERIF_PROP=$1 VERIF_COUNT=${2:-200} VERIF_SEED=${3:-1} VERIF_OUT=/var/tmp/vdev/out /var/tmp/vdev/harness.test -test.run '^TestScenario$' -test.timeout 0 | grep -v "^R " | tail -5
python3 - <<EOP
import json
s=json.load(open('/var/tmp/vdev/out/worker-0.json'))
print('runs',s['runs'],'nontrivial',s['nontrivial'],'wall',round(s['wall_s'],2),'fired',s['faults_fired'],'probes',s['probes'])
print('fail_count',s['fail_count'])
for f in (s['failures'] or [])[:${SHOW:-3}]:
    print('---',f['fail']['class'],'run',f['run']); print(f['fail']['detail'][:3000]); print('\n'.join(f.get('trace',[])[-12:]))
EOP
