#!/bin/bash
# usage: tools/try_seed.sh <worktree> <seed-name> <prop> [more props...]
# 1. saves the worktree's source change as seeded/<name>/patch.diff (+ demo test files)
# 2. confirms: existing tests pass with the change; the demo fails with it and passes without
# 3. runs the quick checks for the given properties against the changed tree (VERIF_REPO)
set -u
WT=$1; NAME=$2; shift 2
export GOFLAGS=-mod=mod GOPROXY=off
D=/verif/seeded/$NAME; mkdir -p $D
cd $WT
git diff -- . ':(exclude)*_test.go' > $D/patch.diff
git status --porcelain | grep '^??' | awk '{print $2}' | grep '_test.go$' > $D/demo_files.txt
for f in $(cat $D/demo_files.txt); do mkdir -p $D/demo/$(dirname $f); cp $f $D/demo/$f; done
cp -f SEEDED.md $D/SEEDED.md 2>/dev/null
echo "--- patch ($(wc -l < $D/patch.diff) lines), demo files: $(cat $D/demo_files.txt | tr '\n' ' ')"
M=$WT/src/diagonal.works/b6
if [ "${SKIP_CONFIRM:-}" = "" ]; then
  echo "--- existing tests with the change (demo files moved aside)"
  for f in $(cat $D/demo_files.txt); do mv $WT/$f $WT/$f.aside; done
  (cd $M && go test -vet=off -count=1 $(go list ./... | grep -v /gdal | grep -v /cmd/) 2>&1 | grep -v "^ok\|no test files" | head -20; echo "existing-tests-exit=${PIPESTATUS[0]}")
  for f in $(cat $D/demo_files.txt); do mv $WT/$f.aside $WT/$f; done
  PK=$(for f in $(cat $D/demo_files.txt); do echo ./$(dirname ${f#src/diagonal.works/b6/}); done | sort -u | tr '\n' ' ')
  echo "--- demo with the change (packages: $PK) ${DEMO_FLAGS:-}"
  (cd $M && go test -vet=off -count=1 ${DEMO_FLAGS:-} -run "${DEMO_RUN:-Seeded|Demo|seeded}" $PK 2>&1 | tail -8)
  echo "--- demo without the change"
  git apply -R $D/patch.diff
  (cd $M && go test -vet=off -count=1 ${DEMO_FLAGS:-} -run "${DEMO_RUN:-Seeded|Demo|seeded}" $PK 2>&1 | tail -4)
  git apply $D/patch.diff
fi
cd ${VERIF_SNAP:-/verif}
for P in "$@"; do
  echo "--- check $P against the changed tree"
  VERIF_REPO=$WT VERIF_QUICK_S=${QUICK_S:-20} ./check $P --tier quick 2>&1 | grep -v "^check: built\|^check: property=" | cut -c1-700 | tail -${TAILN:-12}
  echo "check-exit $P = ${PIPESTATUS[0]}"
done
