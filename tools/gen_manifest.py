#!/usr/bin/env python3
"""Generates /verif/MANIFEST.json from the table below. Run after changing
which properties are claimed. Validates against the schema if jsonschema is
importable (python3-vt)."""
import json, os, sys

NA = {
 "C01": "pure function of the accepted feature set (encode then decode); no schedule, clock, fault or interleaving in the statement. The schedule-dependent part of building is C36.",
 "C02": "pure comparison of two deterministic functions of the same input world; nothing for a scheduler or fault injector to decide.",
 "C03": "pure function of world contents and query; the history-dependent slice (search after edits) is asserted inside C12's observation, not claimed separately.",
 "C04": "pure geometric covering/containment property of inputs.",
 "C05": "pure geometric predicate property of inputs.",
 "C06": "sequential iterator algebra on one object with one caller; no second party, fault or schedule (the mutating-tree/open-iterator case is C07).",
 "C08": "pure codec round trip.",
 "C09": "pure codec round trip (the concurrent reserve/write use by builders is exercised, not claimed, under C36).",
 "C10": "pure bit-packing invertibility; a symbolic/bit-vector question, not a simulation one.",
 "C11": "pure codec round trip.",
 "C16": "pure function of two immutable worlds; the mutable overlay case is inside C12.",
 "C17": "pure function of how features are partitioned into files.",
 "C19": "pure conversion round trip.",
 "C20": "pure parser/printer round trip.",
 "C21": "pure function of the program (VM vs reference semantics).",
 "C22": "pure function of the program.",
 "C23": "quantified over programs and inputs only; no schedule or fault dimension (a panic during C40/C26 runs is still reported there as a server crash).",
 "C24": "pure functions of collections.",
 "C29": "pure function of the OSM input.",
 "C30": "pure graph algorithm property.",
 "C31": "pure encoding round trip.",
 "C32": "pure conversion round trip.",
 "C33": "pure projection/encoding property.",
 "C34": "pure algorithm equivalence.",
 "C39": "pure sequential value type.",
}

# id -> (category, technique, level text, level note, design ref, quick extra args, thorough extra args)
CHECKS = {}

def load_checks():
    p = os.path.join(os.path.dirname(__file__), "checks.json")
    if os.path.exists(p):
        return json.load(open(p))
    return {}

def main():
    checks = load_checks()
    props = [json.loads(l)["id"] for l in open("/verif/properties.jsonl")]
    m = {
        "version": 1,
        "setup_cmd": "./setup.sh",
        "hooks": {
            "guard": "verif",
            "enable": "checks copy /repo/src/diagonal.works/b6 to a scratch dir, instrument it with simgo, and build the harness with `go1.26.8 test -c -tags verif`",
            "baseline_off_cmd": "cd /repo/src/diagonal.works/b6 && GOFLAGS=-mod=mod go test -json -vet=off -count=1 -timeout 25m ./...",
            "source_commits": json.load(open("/verif/tools/hook_commits.json")) if os.path.exists("/verif/tools/hook_commits.json") else [],
            "add_only": True,
        },
        "engines": [
            {"name": "simgo+simrt", "path": "/verif/simgo, /verif/simrt",
             "serves_properties": sorted(checks.keys()),
             "kind_free_text": "deterministic simulation: AST-instrumented scratch copy of b6 run under a seeded cooperative scheduler inside a testing/synctest bubble; one decision tape drives operations, faults, select choices, map orders and the schedule; tape shrinking; replay files"},
        ],
        "checks": [],
        "notes": "See DESIGN.md. Exit codes: 0 held, 1 VIOLATION, 2 build/harness trouble (never a VIOLATION).",
        "not_applicable": [],
    }
    for pid in props:
        if pid in checks:
            c = checks[pid]
            m["checks"].append({
                "property_id": pid,
                "quick_cmd": f"./check {pid} --tier quick",
                "thorough_cmd": f"./check {pid} --tier thorough",
                "evidence_file": f"/verif/evidence/{pid}.json",
                "replay_cmd_template": f"./check {pid} --replay {{path}}",
                "engine": "simgo+simrt",
                "level_claimed": {"category": c["category"], "text": c["text"], "design_ref": c["design_ref"]},
                "level_note": c["note"],
                "technique": c["technique"],
            })
        else:
            reason = NA.get(pid) or checks.get("_pending", {}).get(pid) or "check not yet built in this framework (simulation target per DESIGN.md; pending)"
            m["not_applicable"].append({"property_id": pid, "reason": reason})
    json.dump(m, open("/verif/MANIFEST.json", "w"), indent=1)
    try:
        import jsonschema
        jsonschema.validate(m, json.load(open("/root/.vp/MANIFEST.schema.json")))
        print("manifest valid;", len(m["checks"]), "checks,", len(m["not_applicable"]), "n/a")
    except ImportError:
        print("jsonschema not importable; wrote manifest unvalidated")

main()
