#!/bin/sh
# Development helper: (re)creates the instrumented scratch copy under /var/tmp/vdev.
set -e
export GOFLAGS=-mod=mod GOPROXY=off GOSUMDB=off GOTOOLCHAIN=local PATH=/opt/veriftools/go1.26.8/bin:$PATH
REPO=${VERIF_REPO:-/repo}
(cd /verif/simgo && go build -o /verif/bin/simgo .)
rm -rf /var/tmp/vdev/root /var/tmp/vdev/b6 && mkdir -p /var/tmp/vdev/root/src/diagonal.works && cp -r $REPO/src/diagonal.works/b6 /var/tmp/vdev/root/src/diagonal.works/b6
ln -s $REPO/data /var/tmp/vdev/root/data
ln -s /var/tmp/vdev/root/src/diagonal.works/b6 /var/tmp/vdev/b6
cd /var/tmp/vdev/root/src/diagonal.works/b6
printf '\nrequire verif/simrt v0.0.0\n\nreplace verif/simrt => /verif/simrt\n' >> go.mod
/verif/bin/simgo -dir . -report /var/tmp/vdev/report.json -preempt "$(cat /verif/simgo/preempt_files.txt | tr '\n' ',')"
