package main

import "fmt"

func selftestDeterminism(args []string) { fmt.Println("not implemented yet") }
func selftestFidelity()                 { fmt.Println("not implemented yet") }
