package main

import (
	"bytes"
	"fmt"
	"os"
	"os/exec"
	"path/filepath"
	"sort"
	"strings"
	"sync"
)

var allProps = []string{"C07", "C12", "C13", "C14", "C15", "C18", "C25", "C26", "C27", "C28", "C35", "C36", "C37", "C38", "C40"}

// selftestDeterminism runs, for each property, the same (seed, run) range
// in separate processes under GOMAXPROCS 1, 4 and 16, with and without the
// race detector, twice each, and demands byte-identical per-run lines
// (schedule-trace hash, generated-case hash, step count, tape length,
// failure class). Exit 0 if identical everywhere, 2 otherwise.
func selftestDeterminism(args []string) {
	props := allProps
	if len(args) > 0 {
		props = args
	}
	runs := envInt("VERIF_SELFTEST_RUNS", 40)
	bins := map[bool]string{false: ensureBuild(false), true: ensureBuild(true)}
	type cfg struct {
		race  bool
		procs int
		rep   int
	}
	var cfgs []cfg
	for _, race := range []bool{false, true} {
		for _, p := range []int{1, 4, 16} {
			for rep := 0; rep < 2; rep++ {
				cfgs = append(cfgs, cfg{race, p, rep})
			}
		}
	}
	bad := 0
	for _, prop := range props {
		outs := make([]string, len(cfgs))
		var wg sync.WaitGroup
		sem := make(chan struct{}, 12)
		for i, c := range cfgs {
			wg.Add(1)
			go func(i int, c cfg) {
				defer wg.Done()
				sem <- struct{}{}
				defer func() { <-sem }()
				dir, _ := os.MkdirTemp(scratchBase(), "verif-det-")
				defer os.RemoveAll(dir)
				// A race report ends the process (halt_on_error): the known
				// finding C40/race:via ... does that in some runs. Such a run
				// is noted and the next process continues after it, as the
				// driver does; what is compared is the schedule of every run
				// that completed, and at which runs the reports came.
				var lines []string
				for start := 0; start < runs; {
					cmd := exec.Command(bins[c.race], "-test.run", "^TestScenario$", "-test.timeout", "0", "-test.count", "1")
					cmd.Env = append(os.Environ(), "VERIF_PROP="+prop, "VERIF_SEED=7", fmt.Sprintf("VERIF_START=%d", start), "VERIF_STRIDE=1", fmt.Sprintf("VERIF_COUNT=%d", runs-start),
						"VERIF_OUT="+dir, "VERIF_HASHES=1", fmt.Sprintf("GOMAXPROCS=%d", c.procs), "GORACE=halt_on_error=1 exitcode=66")
					cmd.Dir = dir
					var so, se bytes.Buffer
					cmd.Stdout, cmd.Stderr = &so, &se
					err := cmd.Run()
					last := -1
					for _, l := range strings.Split(so.String(), "\n") {
						if strings.HasPrefix(l, "H ") {
							lines = append(lines, l)
						}
						if strings.HasPrefix(l, "R ") {
							fmt.Sscanf(l, "R %d", &last)
						}
					}
					if err == nil {
						break
					}
					if c.race && strings.Contains(se.String(), "WARNING: DATA RACE") && last >= start {
						lines = append(lines, fmt.Sprintf("RACE-REPORT-AT %d", last))
						start = last + 1
						continue
					}
					lines = append(lines, "PROCESS-ERROR "+err.Error()+" "+tail(se.String(), 300))
					break
				}
				outs[i] = strings.Join(lines, "\n")
			}(i, c)
		}
		wg.Wait()
		ref := outs[0]
		ok := true
		// the runs at which race reports came must agree among the race
		// configurations; in their place the reference's line is put
		raceAt := ""
		for i := range outs {
			if !cfgs[i].race {
				continue
			}
			var at []string
			refLines := strings.Split(ref, "\n")
			ls := strings.Split(outs[i], "\n")
			for j, l := range ls {
				if strings.HasPrefix(l, "RACE-REPORT-AT ") {
					at = append(at, l)
					if j < len(refLines) {
						ls[j] = refLines[j]
					}
				}
			}
			outs[i] = strings.Join(ls, "\n")
			if a := strings.Join(at, ","); raceAt == "" {
				raceAt = "=" + a
			} else if raceAt != "="+a {
				ok = false
				fmt.Printf("selftest-determinism: %s: race reports came at different runs: %s vs %s\n", prop, raceAt[1:], a)
			}
		}
		for i, o := range outs {
			if o != ref {
				ok = false
				fmt.Printf("selftest-determinism: %s: configuration race=%v GOMAXPROCS=%d rep=%d differs from the reference:\n%s\n", prop, cfgs[i].race, cfgs[i].procs, cfgs[i].rep, firstDiff(ref, o))
			}
		}
		n := len(strings.Split(ref, "\n"))
		if ok && n == runs && !strings.Contains(ref, "PROCESS-ERROR") {
			fmt.Printf("selftest-determinism: %s: %d runs x %d configurations identical\n", prop, n, len(cfgs))
		} else {
			if ok {
				fmt.Printf("selftest-determinism: %s: incomplete output (%d lines):\n%s\n", prop, n, tail(ref, 600))
			}
			bad++
		}
	}
	if bad > 0 {
		exit(2)
	}
}

func firstDiff(a, b string) string {
	la, lb := strings.Split(a, "\n"), strings.Split(b, "\n")
	for i := 0; i < len(la) || i < len(lb); i++ {
		var x, y string
		if i < len(la) {
			x = la[i]
		}
		if i < len(lb) {
			y = lb[i]
		}
		if x != y {
			return fmt.Sprintf("  line %d:\n    ref: %s\n    got: %s", i, x, y)
		}
	}
	return "  (no difference found)"
}

// selftestFidelity runs the repository's own test suite against the
// instrumented copy with the simulator inactive: the rewrites must be
// semantics-preserving. Exit 0 if every package passes, 2 otherwise.
func selftestFidelity() {
	ensureBuild(false)
	key := treeKey()
	tree := filepath.Join(verifDir, ".cache", key, "tree", "root")
	// the tests read their data relative to the repository root
	os.Symlink(filepath.Join(repoDir(), "data"), filepath.Join(tree, "data"))
	mod := filepath.Join(tree, modRel)
	env := goEnv()
	out, _ := run(mod, env, filepath.Join(goBin, "go"), "list", "./...")
	var pkgs []string
	for _, p := range strings.Fields(out) {
		if strings.Contains(p, "/cmd/") || strings.HasSuffix(p, "/gdal") || !strings.HasPrefix(p, "diagonal.works/b6") {
			continue
		}
		pkgs = append(pkgs, p)
	}
	sort.Strings(pkgs)
	args := append([]string{"test", "-vet=off", "-count=1", "-tags", "verif"}, pkgs...)
	res, err := run(mod, env, filepath.Join(goBin, "go"), args...)
	fmt.Print(res)
	if err != nil {
		fmt.Println("selftest-fidelity: FAILED:", err)
		exit(2)
	}
	fmt.Println("selftest-fidelity: the repository's tests pass on the instrumented copy (simulator inactive)")
}
