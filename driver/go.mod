module verif/driver

go 1.26
