// check is the command registered in MANIFEST.json.
//
//	check <Cxx> --tier quick|thorough [--seed N]
//	check <Cxx> --replay <file>
//	check build            (warm the build cache for the current /repo tree)
//	check selftest-determinism [Cxx ...]
//	check selftest-fidelity
//
// Exit 0: the property held on everything explored (KNOWN-FINDING lines may
// be printed). Exit 1: a violation not listed in known_findings.json, with a
// line "VIOLATION property=<id> replay=<path>". Exit 2: build or harness
// trouble (never a VIOLATION).
package main

import (
	"bytes"
	"crypto/sha256"
	"encoding/binary"
	"encoding/hex"
	"encoding/json"
	"fmt"
	"io"
	"io/fs"
	"os"
	"os/exec"
	"path/filepath"
	"regexp"
	"sort"
	"strconv"
	"strings"
	"sync"
	"syscall"
	"time"
)

const (
	goBin  = "/opt/veriftools/go1.26.8/bin"
	modRel = "src/diagonal.works/b6"
)

// verifDir is the directory holding this framework: VERIF_DIR, else the
// directory of the running executable (so a snapshot of /verif started with
// `vp run` builds, caches and writes evidence inside the snapshot).
var verifDir = func() string {
	if v := os.Getenv("VERIF_DIR"); v != "" {
		return v
	}
	if exe, err := os.Executable(); err == nil {
		if d := filepath.Dir(exe); fileExists(filepath.Join(d, "harness")) && fileExists(filepath.Join(d, "simrt")) {
			return d
		}
	}
	return "/verif"
}()

func fileExists(p string) bool {
	_, err := os.Stat(p)
	return err == nil
}

func repoDir() string {
	if v := os.Getenv("VERIF_REPO"); v != "" {
		return v
	}
	return "/repo"
}

func scratchBase() string {
	if v := os.Getenv("VERIF_SCRATCH"); v != "" {
		return v
	}
	return "/var/tmp"
}

// scratch directories to remove before the process exits (os.Exit skips defers)
var scratchDirs []string

func exit(code int) {
	for _, d := range scratchDirs {
		os.RemoveAll(d)
	}
	os.Exit(code)
}

func trouble(format string, args ...any) {
	fmt.Fprintf(os.Stderr, "check: TROUBLE (exit 2, not a violation): "+format+"\n", args...)
	exit(2)
}

func goEnv() []string {
	env := os.Environ()
	env = append(env, "GOFLAGS=-mod=mod", "GOPROXY=off", "GOSUMDB=off", "GOTOOLCHAIN=local", "CGO_ENABLED=1",
		"PATH="+goBin+":"+os.Getenv("PATH"))
	return env
}

// ---------------------------------------------------------------- hashing

func hashTree(h io.Writer, root string, keep func(rel string, d fs.DirEntry) bool) {
	var files []string
	filepath.WalkDir(root, func(p string, d fs.DirEntry, err error) error {
		if err != nil {
			return nil
		}
		rel, _ := filepath.Rel(root, p)
		if d.IsDir() {
			if d.Name() == ".git" || d.Name() == "node_modules" {
				return filepath.SkipDir
			}
			return nil
		}
		if keep(rel, d) {
			files = append(files, rel)
		}
		return nil
	})
	sort.Strings(files)
	for _, f := range files {
		b, err := os.ReadFile(filepath.Join(root, f))
		if err != nil {
			continue
		}
		fmt.Fprintf(h, "%s %d\n", f, len(b))
		h.Write(b)
	}
}

func treeKey() string {
	h := sha256.New()
	hashTree(h, filepath.Join(repoDir(), modRel), func(rel string, d fs.DirEntry) bool {
		return strings.HasSuffix(rel, ".go") || rel == "go.mod" || rel == "go.sum"
	})
	for _, sub := range []string{"simgo", "simrt", "harness"} {
		hashTree(h, filepath.Join(verifDir, sub), func(rel string, d fs.DirEntry) bool {
			return strings.HasSuffix(rel, ".go") || strings.HasSuffix(rel, ".txt") || rel == "go.mod"
		})
	}
	return hex.EncodeToString(h.Sum(nil))[:24]
}

// ---------------------------------------------------------------- build

func run(dir string, env []string, name string, args ...string) (string, error) {
	cmd := exec.Command(name, args...)
	cmd.Dir = dir
	cmd.Env = env
	var out bytes.Buffer
	cmd.Stdout = &out
	cmd.Stderr = &out
	err := cmd.Run()
	return out.String(), err
}

func copyTree(src, dst string) error {
	return filepath.WalkDir(src, func(p string, d fs.DirEntry, err error) error {
		if err != nil {
			return err
		}
		rel, _ := filepath.Rel(src, p)
		if d.IsDir() {
			if d.Name() == ".git" || d.Name() == "node_modules" {
				return filepath.SkipDir
			}
			return os.MkdirAll(filepath.Join(dst, rel), 0o755)
		}
		if !d.Type().IsRegular() {
			return nil
		}
		b, err := os.ReadFile(p)
		if err != nil {
			return err
		}
		return os.WriteFile(filepath.Join(dst, rel), b, 0o644)
	})
}

// ensureBuild returns the path of the harness binary (plain or race) for the
// current tree, building it if the cache has none.
func ensureBuild(race bool) string {
	key := treeKey()
	cache := filepath.Join(verifDir, ".cache")
	os.MkdirAll(cache, 0o755)
	name := "harness.test"
	if race {
		name = "harness.race.test"
	}
	bin := filepath.Join(cache, key, name)
	// one builder at a time
	lock, err := os.OpenFile(filepath.Join(cache, "build.lock"), os.O_CREATE|os.O_RDWR, 0o644)
	if err != nil {
		trouble("lock: %v", err)
	}
	defer lock.Close()
	if err := syscall.Flock(int(lock.Fd()), syscall.LOCK_EX); err != nil {
		trouble("flock: %v", err)
	}
	defer syscall.Flock(int(lock.Fd()), syscall.LOCK_UN)
	if _, err := os.Stat(bin); err == nil {
		return bin
	}
	t0 := time.Now()
	// prune: keep the few most recently used keys (several trees may be
	// checked in turn, e.g. seeded changes), remove the rest
	if ents, err := os.ReadDir(cache); err == nil {
		type kd struct {
			name string
			t    time.Time
		}
		var dirs []kd
		for _, e := range ents {
			if e.IsDir() && e.Name() != key {
				if fi, err := e.Info(); err == nil {
					dirs = append(dirs, kd{e.Name(), fi.ModTime()})
				}
			}
		}
		sort.Slice(dirs, func(i, j int) bool { return dirs[i].t.After(dirs[j].t) })
		for i, d := range dirs {
			if i >= 5 {
				os.RemoveAll(filepath.Join(cache, d.name))
			}
		}
	}
	os.MkdirAll(filepath.Join(cache, key), 0o755)
	env := goEnv()
	// The instrumented tree is kept next to the binaries (3.5 MB) so that the
	// second build flavour does not repeat the copy and the typed load; it is
	// pruned with the key.
	mod := filepath.Join(cache, key, "tree", "root", modRel)
	hdir := filepath.Join(cache, key, "tree", "harness")
	if _, err := os.Stat(filepath.Join(cache, key, "tree", "ok")); err != nil {
		os.RemoveAll(filepath.Join(cache, key, "tree"))
		simgo := filepath.Join(verifDir, "bin", "simgo")
		if _, err := os.Stat(simgo); err != nil || newerSources(filepath.Join(verifDir, "simgo"), simgo) {
			os.MkdirAll(filepath.Join(verifDir, "bin"), 0o755)
			if out, err := run(filepath.Join(verifDir, "simgo"), env, filepath.Join(goBin, "go"), "build", "-o", simgo, "."); err != nil {
				trouble("building simgo: %v\n%s", err, out)
			}
		}
		if err := copyTree(filepath.Join(repoDir(), modRel), mod); err != nil {
			trouble("copying module: %v", err)
		}
		f, err := os.OpenFile(filepath.Join(mod, "go.mod"), os.O_APPEND|os.O_WRONLY, 0o644)
		if err != nil {
			trouble("go.mod: %v", err)
		}
		fmt.Fprintf(f, "\nrequire verif/simrt v0.0.0\n\nreplace verif/simrt => %s\n", filepath.Join(verifDir, "simrt"))
		f.Close()
		pre, _ := os.ReadFile(filepath.Join(verifDir, "simgo", "preempt_files.txt"))
		preempt := strings.Join(strings.Fields(string(pre)), ",")
		if out, err := run(mod, env, simgo, "-dir", ".", "-preempt", preempt, "-report", filepath.Join(cache, key, "simgo-report.json")); err != nil {
			trouble("instrumenting the tree failed (simgo): %v\n%s", err, out)
		}
		if err := copyTree(filepath.Join(verifDir, "harness"), hdir); err != nil {
			trouble("copying harness: %v", err)
		}
		gomod := fmt.Sprintf(`module verif/harness

go 1.26

require (
	diagonal.works/b6 v0.0.0
	verif/simrt v0.0.0
	github.com/anishathalye/porcupine v1.3.0
)

replace diagonal.works/b6 => %s

replace verif/simrt => %s
`, mod, filepath.Join(verifDir, "simrt"))
		os.WriteFile(filepath.Join(hdir, "go.mod"), []byte(gomod), 0o644)
		if b, err := os.ReadFile(filepath.Join(mod, "go.sum")); err == nil {
			os.WriteFile(filepath.Join(hdir, "go.sum"), b, 0o644)
		}
		os.WriteFile(filepath.Join(cache, key, "tree", "ok"), []byte("ok"), 0o644)
	}
	args := []string{"test", "-c", "-vet=off", "-tags", "verif", "-o", bin}
	if race {
		args = append(args, "-race")
	}
	args = append(args, ".")
	if out, err := run(hdir, env, filepath.Join(goBin, "go"), args...); err != nil {
		os.Remove(bin)
		trouble("building the harness against the instrumented tree failed: %v\n%s", err, tail(out, 6000))
	}
	fmt.Fprintf(os.Stderr, "check: built %s in %.1fs (tree %s)\n", name, time.Since(t0).Seconds(), key)
	return bin
}

func newerSources(dir, bin string) bool {
	st, err := os.Stat(bin)
	if err != nil {
		return true
	}
	newer := false
	filepath.WalkDir(dir, func(p string, d fs.DirEntry, err error) error {
		if err == nil && !d.IsDir() {
			if fi, err := d.Info(); err == nil && fi.ModTime().After(st.ModTime()) {
				newer = true
			}
		}
		return nil
	})
	return newer
}

func tail(s string, n int) string {
	if len(s) > n {
		return "…" + s[len(s)-n:]
	}
	return s
}

// ---------------------------------------------------------------- records (mirrors harness types loosely)

type failure struct {
	Class  string `json:"class"`
	Detail string `json:"detail"`
}

type runRecord map[string]any

type workerSummary struct {
	Prop         string           `json:"prop"`
	Worker       int              `json:"worker"`
	Runs         int              `json:"runs"`
	Nontrivial   int              `json:"nontrivial"`
	Steps        int64            `json:"steps"`
	Decisions    int64            `json:"decisions"`
	Switches     int64            `json:"switches"`
	Tasks        int64            `json:"tasks"`
	Preempts     int64            `json:"preempts"`
	Fired        map[string]int   `json:"faults_fired"`
	Configured   map[string]int   `json:"faults_configured"`
	Probes       map[string]int   `json:"probes"`
	Knobs        map[string]int   `json:"knob_histogram"`
	Failures     []map[string]any `json:"failures"`
	FailCount    map[string]int   `json:"fail_count"`
	Samples      []map[string]any `json:"samples"`
	WallS        float64          `json:"wall_s"`
	DirtyRuns    int              `json:"dirty_runs"`
	StoppedEarly string           `json:"stopped_early"`
	Race         bool             `json:"race_build"`
	Complete     bool             `json:"complete"`
}

type scenarioInfo struct {
	Prop             string   `json:"prop"`
	Real             []string `json:"real"`
	Stubs            []string `json:"stubs"`
	Assumptions      []string `json:"assumptions"`
	Rule             string   `json:"rule"`
	NontrivialByCase bool     `json:"nontrivial_by_case"`
	NeedsRace        bool     `json:"needs_race"`
	Level            string   `json:"level"`
}

type replayFile struct {
	Property string         `json:"property"`
	Class    string         `json:"class"`
	Detail   string         `json:"detail"`
	Seed     uint64         `json:"seed"`
	Run      uint64         `json:"run"`
	TreeHash string         `json:"tree_hash"`
	Shrunk   bool           `json:"shrunk"`
	Tries    int            `json:"shrink_tries"`
	Live     bool           `json:"live,omitempty"`
	Race     bool           `json:"race_build,omitempty"`
	TapeG    []uint32       `json:"tape_g"`
	TapeS    []uint32       `json:"tape_s"`
	Record   map[string]any `json:"decoded,omitempty"`
}

type finding struct {
	Property    string `json:"property"`
	Status      string `json:"status"` // known | fixed
	ClassRegex  string `json:"class_regex,omitempty"`
	DetailRegex string `json:"detail_regex,omitempty"`
	// RaceFrame: a known finding that is a data race is identified by a call
	// site: a race report with this function in one of its stacks gets the
	// class "<prop>/race:via <frame>" instead of the pair of first functions
	RaceFrame string `json:"race_frame,omitempty"`
	Commit    string `json:"commit,omitempty"`
	What      string `json:"what"`
}

func loadFindings() []finding {
	b, err := os.ReadFile(filepath.Join(verifDir, "known_findings.json"))
	if err != nil {
		return nil
	}
	var f struct {
		Findings []finding `json:"findings"`
	}
	if err := json.Unmarshal(b, &f); err != nil {
		trouble("known_findings.json: %v", err)
	}
	return f.Findings
}

func matchFinding(fs []finding, prop, class, detail string) *finding {
	for i := range fs {
		f := &fs[i]
		if f.Property != prop || f.Status != "known" {
			continue
		}
		if f.ClassRegex != "" {
			if ok, _ := regexp.MatchString(f.ClassRegex, class); !ok {
				continue
			}
		}
		if f.DetailRegex != "" {
			if ok, _ := regexp.MatchString(f.DetailRegex, detail); !ok {
				continue
			}
		}
		return f
	}
	return nil
}

// ---------------------------------------------------------------- worker processes

type workerResult struct {
	idx      int
	exit     int
	stdout   string
	stderr   string
	summary  *workerSummary
	lastRun  int64
	started  int // runs announced on stdout
	outDir   string
	crashed  bool
	watchdog bool
	// hang: the watchdog fired while a task was executing b6 code without
	// reaching a scheduling point (class of the violation), "" otherwise
	hang string
}

func runWorker(bin string, env []string, outDir string, idx int) *workerResult {
	cmd := exec.Command(bin, "-test.run", "^TestScenario$", "-test.timeout", "0", "-test.count", "1")
	cmd.Env = append(append([]string{}, env...), fmt.Sprintf("VERIF_WORKER=%d", idx), "VERIF_OUT="+outDir, "GOMAXPROCS=2", "GORACE=halt_on_error=1 exitcode=66",
		// the scenarios allocate heavily (world builds, observation dumps) on
		// tiny heaps: a third of the time went into collection at GOGC=100
		"GOGC="+envStr("VERIF_GOGC", "400"))
	cmd.Dir = outDir
	var so, se bytes.Buffer
	cmd.Stdout = &so
	cmd.Stderr = &se
	err := cmd.Run()
	r := &workerResult{idx: idx, stdout: so.String(), stderr: se.String(), outDir: outDir, lastRun: -1}
	if err != nil {
		if ee, ok := err.(*exec.ExitError); ok {
			r.exit = ee.ExitCode()
		} else {
			r.exit = -1
		}
	}
	for _, line := range strings.Split(r.stdout, "\n") {
		if strings.HasPrefix(line, "R ") {
			if n, err := strconv.ParseInt(strings.TrimSpace(line[2:]), 10, 64); err == nil {
				r.lastRun = n
				r.started++
			}
		}
	}
	if b, err := os.ReadFile(filepath.Join(outDir, fmt.Sprintf("worker-%d.json", idx))); err == nil {
		var s workerSummary
		if json.Unmarshal(b, &s) == nil {
			r.summary = &s
		}
	}
	if r.exit == 3 && strings.Contains(r.stderr, "WATCHDOG") {
		r.watchdog = true
	} else if r.summary == nil || !r.summary.Complete {
		// (a worker checkpoints its summary as it goes: a partial one from a
		// process that died still counts its runs and failures)
		r.crashed = true
	}
	return r
}

var reGoroutine = regexp.MustCompile(`(?m)^goroutine \d+ \[([^\],]+)[^\]]*\]:$`)

// hangClass inspects a watchdog dump. If a goroutine of the simulation is
// running (or runnable) inside b6 code - a loop that never reaches a
// scheduling point, e.g. decoding a corrupted structure for ever - the stall
// is the program's, not the harness's: it returns the violation class. All
// goroutines blocked means something blocked where the simulator cannot see
// it, which is a harness problem ("", false).
func hangClass(prop, stderr string) (string, bool) {
	i := strings.Index(stderr, "WATCHDOG:")
	if i < 0 {
		return "", false
	}
	for _, g := range strings.Split(stderr[i:], "\n\n") {
		m := reGoroutine.FindStringSubmatch(g)
		if m == nil || (m[1] != "running" && m[1] != "runnable") || !strings.Contains(g, "synctest bubble") {
			continue
		}
		lines := strings.Split(g, "\n")
		if !innermostIsB6(lines) {
			continue // the innermost frame must be b6 code
		}
		// class: the outermost b6 function of that task (the innermost one
		// is wherever the loop happened to be when the dump was taken)
		fn := lines[1]
		for _, l := range lines[1:] {
			if strings.HasPrefix(l, "diagonal.works/b6") {
				fn = l
			}
		}
		if j := strings.LastIndex(fn, "("); j > 0 {
			fn = fn[:j]
		}
		return prop + "/hang:no-progress:" + strings.TrimPrefix(fn, "diagonal.works/b6/"), true
	}
	return "", false
}

var reRaceFunc = regexp.MustCompile(`(?m)^  (diagonal\.works/b6\S*?)\(\)\s*$`)

// innermostIsB6: the goroutine's innermost frame is b6 code, not counting
// the simulator's own helpers that instrumented code calls (a preemption
// point that did not fire, a map-order wrapper).
func innermostIsB6(lines []string) bool {
	for i := 1; i < len(lines); i += 2 {
		switch {
		case strings.HasPrefix(lines[i], "verif/simrt"):
			continue
		case strings.HasPrefix(lines[i], "diagonal.works/b6"):
			return true
		default:
			return false
		}
	}
	return false
}

// hangDetail extracts the stack of the goroutine that hangClass found.
func hangDetail(stderr string) string {
	i := strings.Index(stderr, "WATCHDOG:")
	if i < 0 {
		return ""
	}
	for _, g := range strings.Split(stderr[i:], "\n\n") {
		m := reGoroutine.FindStringSubmatch(g)
		if m != nil && (m[1] == "running" || m[1] == "runnable") && strings.Contains(g, "synctest bubble") {
			if innermostIsB6(strings.Split(g, "\n")) {
				return firstLines(g, 24)
			}
		}
	}
	return ""
}

// crashClass derives a stable class from a crashed worker's stderr.
func crashClass(prop, stderr string) (string, string) {
	if i := strings.Index(stderr, "WARNING: DATA RACE"); i >= 0 {
		rep := stderr[i:]
		if j := strings.Index(rep, "=================="); j > 0 {
			rep = rep[:j]
		}
		for _, f := range loadFindings() {
			if f.Property == prop && f.Status == "known" && f.RaceFrame != "" && strings.Contains(rep, "/"+f.RaceFrame+"()") {
				return prop + "/race:via " + f.RaceFrame, rep
			}
		}
		// first b6 frame of each of the two stacks
		parts := strings.Split(rep, "\n\n")
		var fns []string
		for _, p := range parts[:min(2, len(parts))] {
			if m := reRaceFunc.FindStringSubmatch(p); m != nil {
				fns = append(fns, strings.TrimSuffix(m[1], "()"))
			}
		}
		if len(fns) < 2 {
			return prop + "/race:outside-b6", rep
		}
		sort.Strings(fns)
		return prop + "/race:" + fns[0] + "|" + fns[1], rep
	}
	if strings.Contains(stderr, "stack overflow") || strings.Contains(stderr, "goroutine stack exceeds") {
		fn := "unknown"
		if m := reRaceFunc.FindStringSubmatch(stderr); m != nil {
			fn = m[1]
		}
		return prop + "/crash:stack-overflow:" + fn, tail(firstLines(stderr, 60), 5000)
	}
	if strings.Contains(stderr, "fatal error:") {
		i := strings.Index(stderr, "fatal error:")
		line := stderr[i:]
		if j := strings.Index(line, "\n"); j > 0 {
			line = line[:j]
		}
		return prop + "/crash:" + strings.TrimSpace(line), tail(firstLines(stderr[i:], 60), 5000)
	}
	return prop + "/crash:worker-died", tail(stderr, 4000)
}

func firstLines(s string, n int) string {
	lines := strings.Split(s, "\n")
	if len(lines) > n {
		lines = lines[:n]
	}
	return strings.Join(lines, "\n")
}

// ---------------------------------------------------------------- main flow

type tierCfg struct {
	name     string
	workers  int
	seconds  int // per worker, per build flavour
	maxRuns  uint64
	shrinkS  int
	watchdog int
}

func tierFor(name string) tierCfg {
	switch name {
	case "quick":
		return tierCfg{name: "quick", workers: envInt("VERIF_WORKERS", 16), seconds: envInt("VERIF_QUICK_S", 20), maxRuns: 1 << 40, shrinkS: 40, watchdog: 120}
	case "thorough":
		return tierCfg{name: "thorough", workers: envInt("VERIF_WORKERS", 16), seconds: envInt("VERIF_THOROUGH_S", 900), maxRuns: 1 << 40, shrinkS: 300, watchdog: 300}
	}
	trouble("unknown tier %q", name)
	return tierCfg{}
}

func envStr(name, def string) string {
	if v := os.Getenv(name); v != "" {
		return v
	}
	return def
}

func envInt(name string, def int) int {
	if v := os.Getenv(name); v != "" {
		if n, err := strconv.Atoi(v); err == nil {
			return n
		}
	}
	return def
}

func scenarioMeta(bin, prop string) *scenarioInfo {
	cmd := exec.Command(bin, "-test.run", "^TestDescribe$", "-test.count", "1")
	cmd.Env = append(os.Environ(), "VERIF_PROP="+prop, "VERIF_DESCRIBE=1")
	out, err := cmd.Output()
	if err != nil {
		trouble("describing scenario %s: %v", prop, err)
	}
	i := bytes.Index(out, []byte("DESCRIBE "))
	if i < 0 {
		trouble("no scenario registered for %s in the harness", prop)
	}
	line := out[i+9:]
	if j := bytes.IndexByte(line, '\n'); j >= 0 {
		line = line[:j]
	}
	var si scenarioInfo
	if err := json.Unmarshal(line, &si); err != nil {
		trouble("describe: %v", err)
	}
	return &si
}

type batchOutcome struct {
	race       bool
	results    []*workerResult
	runs       int
	wall       float64
	traceSet   map[uint64]struct{}
	caseSet    map[uint64]struct{}
	nontrivial int
}

func runBatch(bin string, race bool, prop string, seed uint64, tc tierCfg, outRoot string) *batchOutcome {
	flavour := "plain"
	if race {
		flavour = "race"
	}
	outDir := filepath.Join(outRoot, flavour)
	os.MkdirAll(outDir, 0o755)
	env := append(os.Environ(), "VERIF_PROP="+prop, fmt.Sprintf("VERIF_SEED=%d", seed), fmt.Sprintf("VERIF_STRIDE=%d", tc.workers),
		fmt.Sprintf("VERIF_COUNT=%d", tc.maxRuns), fmt.Sprintf("VERIF_TIME_S=%d", tc.seconds), fmt.Sprintf("VERIF_WATCHDOG=%d", tc.watchdog))
	bo := &batchOutcome{race: race, traceSet: map[uint64]struct{}{}, caseSet: map[uint64]struct{}{}}
	t0 := time.Now()
	var wg sync.WaitGroup
	res := make([][]*workerResult, tc.workers)
	for w := 0; w < tc.workers; w++ {
		wg.Add(1)
		go func(w int) {
			defer wg.Done()
			// the race-detector batch explores a disjoint range of run
			// indexes (different tapes), not the plain batch's over again
			start := uint64(w)
			if race {
				start += 1_000_000_000 - 1_000_000_000%uint64(tc.workers)
			}
			// A worker that dies (race detector with halt_on_error, a fatal
			// error in b6) is attributed to its last run and replaced by a
			// fresh process that continues after that run, so that one crash
			// class - a known finding, say - does not end the exploration.
			deadline := time.Now().Add(time.Duration(tc.seconds) * time.Second)
			for inc := 0; ; inc++ {
				remaining := int(time.Until(deadline).Seconds())
				if inc > 0 && remaining < 2 {
					break
				}
				e := append(append([]string{}, env...), fmt.Sprintf("VERIF_START=%d", start))
				if inc > 0 {
					e = append(e, fmt.Sprintf("VERIF_TIME_S=%d", remaining))
				}
				r := runWorker(bin, e, outDir, w+inc*tc.workers)
				res[w] = append(res[w], r)
				if r.watchdog {
					if c, ok := hangClass(prop, r.stderr); ok {
						r.hang = c
					}
				}
				if (!r.crashed && r.hang == "") || r.lastRun < 0 || inc >= 300 {
					break
				}
				start = uint64(r.lastRun) + uint64(tc.workers)
			}
		}(w)
	}
	wg.Wait()
	bo.wall = time.Since(t0).Seconds()
	for _, rs := range res {
		bo.results = append(bo.results, rs...)
	}
	for _, r := range bo.results {
		if r.summary != nil {
			bo.nontrivial += r.summary.Nontrivial
		}
		switch {
		case r.crashed && r.started > 0:
			// the process died in its last announced run; the ones before
			// completed (its last checkpoint may be older than that)
			bo.runs += r.started - 1
		case r.summary != nil:
			bo.runs += r.summary.Runs
		}
		readHashes(filepath.Join(outDir, fmt.Sprintf("worker-%d.trace", r.idx)), bo.traceSet)
		readHashes(filepath.Join(outDir, fmt.Sprintf("worker-%d.case", r.idx)), bo.caseSet)
	}
	return bo
}

func readHashes(path string, into map[uint64]struct{}) {
	b, err := os.ReadFile(path)
	if err != nil {
		return
	}
	for i := 0; i+8 <= len(b); i += 8 {
		into[binary.LittleEndian.Uint64(b[i:])] = struct{}{}
	}
}

type found struct {
	class  string
	detail string
	seed   uint64
	run    uint64
	tapeG  []uint32
	tapeS  []uint32
	live   bool
	race   bool
	count  int
	record map[string]any
}

func toU32s(v any) []uint32 {
	arr, _ := v.([]any)
	out := make([]uint32, 0, len(arr))
	for _, x := range arr {
		if f, ok := x.(float64); ok {
			out = append(out, uint32(f))
		}
	}
	return out
}

func collectFailures(prop string, seed uint64, bo *batchOutcome, into map[string]*found) (watchdogs []string) {
	for _, r := range bo.results {
		if r.watchdog && r.hang == "" {
			watchdogs = append(watchdogs, fmt.Sprintf("worker %d at run %d:\n%s", r.idx, r.lastRun, tail(r.stderr, 3000)))
			continue
		}
		if r.hang != "" {
			detail := "a task executed b6 code for longer than the watchdog limit without reaching a scheduling point (the call never returns):\n" + hangDetail(r.stderr)
			cur := into[r.hang]
			if cur == nil || uint64(r.lastRun) < cur.run {
				n := &found{class: r.hang, detail: detail, seed: seed, run: uint64(r.lastRun), live: true, race: bo.race, count: 1}
				if cur != nil {
					n.count += cur.count
				}
				into[r.hang] = n
			} else {
				cur.count++
			}
		}
		if r.summary != nil {
			for _, f := range r.summary.Failures {
				fl, _ := f["fail"].(map[string]any)
				if fl == nil {
					continue
				}
				class, _ := fl["class"].(string)
				detail, _ := fl["detail"].(string)
				run := uint64(0)
				if v, ok := f["run"].(float64); ok {
					run = uint64(v)
				}
				cur := into[class]
				if cur == nil || run < cur.run {
					n := &found{class: class, detail: detail, seed: seed, run: run, tapeG: toU32s(f["tape_g"]), tapeS: toU32s(f["tape_s"]), race: bo.race, record: f}
					if cur != nil {
						n.count = cur.count
					}
					into[class] = n
					cur = n
				}
			}
			for c, n := range r.summary.FailCount {
				if into[c] != nil {
					into[c].count += n
				}
			}
		}
		if r.crashed {
			class, detail := crashClass(prop, r.stderr)
			if r.lastRun < 0 {
				trouble("worker %d died before its first run (exit %d):\n%s", r.idx, r.exit, tail(r.stderr, 3000))
			}
			cur := into[class]
			if cur == nil || uint64(r.lastRun) < cur.run {
				into[class] = &found{class: class, detail: detail, seed: seed, run: uint64(r.lastRun), live: true, race: bo.race, count: 1}
			} else {
				cur.count++
			}
		}
	}
	return
}

// confirmReplay re-executes a replay file in a fresh process and returns the
// class observed ("" if the run passed).
func confirmReplay(bins map[bool]string, prop string, rf *replayFile, path string) (string, string, map[string]any) {
	outDir, _ := os.MkdirTemp(scratchBase(), "verif-replay-")
	scratchDirs = append(scratchDirs, outDir)
	defer os.RemoveAll(outDir)
	env := append(os.Environ(), "VERIF_PROP="+prop, "VERIF_REPLAY="+path)
	r := runWorker(bins[rf.Race], env, outDir, 0)
	if r.watchdog {
		if c, ok := hangClass(prop, r.stderr); ok {
			return c, "a task executed b6 code for longer than the watchdog limit without reaching a scheduling point (the call never returns):\n" + hangDetail(r.stderr), nil
		}
		trouble("watchdog during replay:\n%s", tail(r.stderr, 3000))
	}
	b, err := os.ReadFile(filepath.Join(outDir, "replay.json"))
	if err != nil {
		// crashed
		class, detail := crashClass(prop, r.stderr)
		return class, detail, nil
	}
	var rec map[string]any
	json.Unmarshal(b, &rec)
	fl, _ := rec["fail"].(map[string]any)
	if fl == nil {
		return "", "", rec
	}
	c, _ := fl["class"].(string)
	d, _ := fl["detail"].(string)
	return c, d, rec
}

func shrink(bins map[bool]string, prop string, rf *replayFile, tc tierCfg) *replayFile {
	dir, _ := os.MkdirTemp(scratchBase(), "verif-shrink-")
	scratchDirs = append(scratchDirs, dir)
	defer os.RemoveAll(dir)
	in := filepath.Join(dir, "in.json")
	b, _ := json.Marshal(rf)
	os.WriteFile(in, b, 0o644)
	env := append(os.Environ(), "VERIF_PROP="+prop, "VERIF_SHRINK="+in, fmt.Sprintf("VERIF_SHRINK_S=%d", tc.shrinkS), fmt.Sprintf("VERIF_WATCHDOG=%d", tc.watchdog))
	r := runWorker(bins[rf.Race], env, dir, 0)
	ob, err := os.ReadFile(filepath.Join(dir, "shrunk.json"))
	if err != nil {
		fmt.Fprintf(os.Stderr, "check: shrinking did not complete (exit %d); keeping the unshrunk tape\n%s\n", r.exit, tail(r.stderr, 1500))
		return rf
	}
	var out replayFile
	if json.Unmarshal(ob, &out) != nil {
		return rf
	}
	out.Race = rf.Race
	return &out
}

func main() {
	if len(os.Args) < 2 {
		trouble("usage: check <Cxx> --tier quick|thorough [--seed N] | check <Cxx> --replay file | check build")
	}
	switch os.Args[1] {
	case "build":
		ensureBuild(false)
		ensureBuild(true)
		return
	case "selftest-determinism":
		selftestDeterminism(os.Args[2:])
		return
	case "selftest-fidelity":
		selftestFidelity()
		return
	}
	prop := os.Args[1]
	tier := os.Getenv("VERIF_TIER")
	if tier == "" {
		tier = "quick"
	}
	seed := uint64(1)
	if v := os.Getenv("VERIF_SEED"); v != "" {
		if n, err := strconv.ParseUint(v, 10, 64); err == nil {
			seed = n
		} else if n, err := strconv.ParseInt(v, 10, 64); err == nil {
			seed = uint64(n)
		}
	}
	replayPath := ""
	for i := 2; i < len(os.Args); i++ {
		switch os.Args[i] {
		case "--tier":
			i++
			tier = os.Args[i]
		case "--seed":
			i++
			n, err := strconv.ParseUint(os.Args[i], 10, 64)
			if err != nil {
				trouble("bad seed")
			}
			seed = n
		case "--replay":
			i++
			replayPath, _ = filepath.Abs(os.Args[i])
		default:
			trouble("unknown argument %q", os.Args[i])
		}
	}
	bins := map[bool]string{false: ensureBuild(false)}
	si := scenarioMeta(bins[false], prop)
	if si.NeedsRace || (replayPath != "" && replayWantsRace(replayPath)) {
		bins[true] = ensureBuild(true)
	}
	if replayPath != "" {
		doReplay(bins, prop, replayPath)
		return
	}
	tc := tierFor(tier)
	t0 := time.Now()
	outRoot, err := os.MkdirTemp(scratchBase(), "verif-run-")
	if err != nil {
		trouble("mktemp: %v", err)
	}
	scratchDirs = append(scratchDirs, outRoot)
	fmt.Printf("check: property=%s tier=%s seed=%d tree=%s workers=%d budget=%ds/worker\n", prop, tier, seed, treeKey(), tc.workers, tc.seconds)
	var batches []*batchOutcome
	failures := map[string]*found{}
	var watchdogs []string
	plain := runBatch(bins[false], false, prop, seed, tc, outRoot)
	batches = append(batches, plain)
	watchdogs = append(watchdogs, collectFailures(prop, seed, plain, failures)...)
	if si.NeedsRace {
		rb := runBatch(bins[true], true, prop, seed, tc, outRoot)
		batches = append(batches, rb)
		watchdogs = append(watchdogs, collectFailures(prop, seed, rb, failures)...)
	}
	if len(watchdogs) > 0 {
		trouble("a worker stalled outside the simulator's view (harness problem):\n%s", strings.Join(watchdogs, "\n"))
	}
	// classify
	findings := loadFindings()
	var classes []string
	for c := range failures {
		classes = append(classes, c)
	}
	sort.Strings(classes)
	exitCode := 0
	var violationLines, knownLines []string
	var evViolations []map[string]any
	var evKnown []map[string]any
	var unconfirmed []string
	os.MkdirAll(filepath.Join(verifDir, "replays"), 0o755)
	for _, c := range classes {
		f := failures[c]
		if strings.HasPrefix(c, "HARNESS/") {
			trouble("the harness itself failed (%s) at seed %d run %d: %s", c, f.seed, f.run, f.detail)
		}
		rf := &replayFile{Property: prop, Class: c, Detail: f.detail, Seed: f.seed, Run: f.run, TreeHash: treeKey(), TapeG: f.tapeG, TapeS: f.tapeS, Live: f.live, Race: f.race, Record: f.record}
		known := matchFinding(findings, prop, c, f.detail)
		isCrash := strings.Contains(c, "/crash:") || strings.Contains(c, "/race:") || strings.Contains(c, "/hang:")
		if known == nil && !isCrash {
			rf = shrink(bins, prop, rf, tc)
			rf.Race = f.race
		}
		name := fmt.Sprintf("%s-seed%d-run%d-%s.json", prop, f.seed, f.run, sanitize(c))
		path := filepath.Join(verifDir, "replays", name)
		b, _ := json.MarshalIndent(rf, "", " ")
		os.WriteFile(path, b, 0o644)
		// confirm in a fresh process
		gotClass, gotDetail, rec := confirmReplay(bins, prop, rf, path)
		if strings.Contains(c, "/race:") {
			// The schedule replays exactly, but which pair of accesses the race
			// detector reports (and whether its bounded, pseudo-randomly
			// evicted shadow history still holds the earlier access) can vary
			// between executions: accept any race report from this run, and
			// try a few times.
			for attempt := 0; attempt < 9 && !strings.Contains(gotClass, "/race:"); attempt++ {
				gotClass, gotDetail, rec = confirmReplay(bins, prop, rf, path)
			}
			if strings.Contains(gotClass, "/race:") {
				gotClass = c
			}
		}
		if strings.Contains(c, "/hang:") && strings.Contains(gotClass, "/hang:") {
			gotClass = c // the same schedule hangs again; where exactly it spins may differ
		}
		if gotClass != c {
			msg := fmt.Sprintf("violation class %q (seed %d run %d) did not reproduce from its replay file %s in a fresh process (got %q)", c, f.seed, f.run, path, gotClass)
			if strings.Contains(c, "/race:") {
				// whether the race detector reports a given pair of accesses
				// depends on its bounded, pseudo-randomly evicted access
				// history: an unconfirmed report is never a VIOLATION, but it
				// does not stop the classes that do reproduce from being
				// reported
				unconfirmed = append(unconfirmed, msg)
				os.Remove(path)
				continue
			}
			trouble("%s: the run is not deterministic; this is a harness problem, not reported as a violation", msg)
		}
		if rec != nil {
			rf.Record = rec
		}
		rf.Detail = gotDetail
		b, _ = json.MarshalIndent(rf, "", " ")
		os.WriteFile(path, b, 0o644)
		if known == nil {
			known = matchFinding(findings, prop, c, gotDetail)
		}
		entry := map[string]any{"class": c, "detail": clip(gotDetail, 1500), "seed": f.seed, "run": f.run, "occurrences": f.count, "replay": path, "tape_len": len(rf.TapeG) + len(rf.TapeS), "shrunk": rf.Shrunk}
		if known != nil {
			knownLines = append(knownLines, fmt.Sprintf("KNOWN-FINDING: property=%s %s [class %s; %d runs; replay=%s]", prop, known.What, c, f.count, path))
			evKnown = append(evKnown, entry)
		} else {
			exitCode = 1
			violationLines = append(violationLines, fmt.Sprintf("VIOLATION property=%s replay=%s", prop, path))
			fmt.Printf("violation class=%s seed=%d run=%d occurrences=%d\n  %s\n", c, f.seed, f.run, f.count, strings.ReplaceAll(clip(gotDetail, 2500), "\n", "\n  "))
			evViolations = append(evViolations, entry)
		}
	}
	for _, u := range unconfirmed {
		fmt.Printf("check: not reported (unconfirmed race report): %s\n", u)
	}
	if len(unconfirmed) > 0 && len(violationLines) == 0 && len(knownLines) == 0 {
		trouble("%d race report(s) did not reproduce and nothing else was found: %s", len(unconfirmed), unconfirmed[0])
	}
	writeEvidence(prop, tier, seed, si, batches, evViolations, evKnown, time.Since(t0).Seconds())
	for _, l := range knownLines {
		fmt.Println(l)
	}
	for _, l := range violationLines {
		fmt.Println(l)
	}
	total := 0
	for _, b := range batches {
		total += b.runs
	}
	fmt.Printf("check: %s %s: %d simulated runs, %d violation class(es), %d known finding(s), %.1fs\n", prop, tier, total, len(violationLines), len(knownLines), time.Since(t0).Seconds())
	exit(exitCode)
}

func clip(s string, n int) string {
	if len(s) > n {
		return s[:n] + "…"
	}
	return s
}

func sanitize(s string) string {
	var b strings.Builder
	for _, r := range s {
		switch {
		case r >= 'a' && r <= 'z', r >= 'A' && r <= 'Z', r >= '0' && r <= '9', r == '-', r == '.':
			b.WriteRune(r)
		default:
			b.WriteByte('_')
		}
	}
	out := b.String()
	if len(out) > 80 {
		out = out[:80]
	}
	return out
}

func replayWantsRace(path string) bool {
	b, err := os.ReadFile(path)
	if err != nil {
		trouble("%v", err)
	}
	var rf replayFile
	if err := json.Unmarshal(b, &rf); err != nil {
		trouble("%v", err)
	}
	return rf.Race
}

func doReplay(bins map[bool]string, prop, path string) {
	b, err := os.ReadFile(path)
	if err != nil {
		trouble("%v", err)
	}
	var rf replayFile
	if err := json.Unmarshal(b, &rf); err != nil {
		trouble("%v", err)
	}
	class, detail, rec := confirmReplay(bins, prop, &rf, path)
	if class == "" {
		fmt.Printf("replay: run passed (no violation) on tree %s (file was recorded on tree %s)\n", treeKey(), rf.TreeHash)
		exit(0)
	}
	fmt.Printf("replay: class=%s\n  %s\n", class, strings.ReplaceAll(clip(detail, 4000), "\n", "\n  "))
	if rec != nil {
		if notes, ok := rec["trace"].([]any); ok {
			for _, n := range notes {
				fmt.Printf("  | %v\n", n)
			}
		}
	}
	if f := matchFinding(loadFindings(), prop, class, detail); f != nil {
		fmt.Printf("KNOWN-FINDING: property=%s %s\n", prop, f.What)
		exit(0)
	}
	fmt.Printf("VIOLATION property=%s replay=%s\n", prop, path)
	exit(1)
}
