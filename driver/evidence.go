package main

import (
	"encoding/json"
	"fmt"
	"os"
	"path/filepath"
	"sort"
)

func mergeCounts(dst, src map[string]int) {
	for k, v := range src {
		dst[k] += v
	}
}

func writeEvidence(prop, tier string, seed uint64, si *scenarioInfo, batches []*batchOutcome, violations, known []map[string]any, wall float64) {
	fired, configured, probes, knobs := map[string]int{}, map[string]int{}, map[string]int{}, map[string]int{}
	var runs, nontrivial int
	var steps, decisions, switches, tasks, preempts int64
	var samples []any
	var stopped []string
	traceAll := map[uint64]struct{}{}
	caseAll := map[uint64]struct{}{}
	perFlavour := map[string]any{}
	dirty := 0
	for _, b := range batches {
		fl := "plain"
		if b.race {
			fl = "race-detector"
		}
		bruns := 0
		for _, r := range b.results {
			s := r.summary
			if s == nil {
				continue
			}
			bruns += s.Runs
			runs += s.Runs
			nontrivial += s.Nontrivial
			steps += s.Steps
			decisions += s.Decisions
			switches += s.Switches
			tasks += s.Tasks
			preempts += s.Preempts
			dirty += s.DirtyRuns
			mergeCounts(fired, s.Fired)
			mergeCounts(configured, s.Configured)
			mergeCounts(probes, s.Probes)
			mergeCounts(knobs, s.Knobs)
			if s.StoppedEarly != "" && s.StoppedEarly != "time budget" {
				stopped = append(stopped, fmt.Sprintf("worker %d: %s", s.Worker, s.StoppedEarly))
			}
			if len(samples) < 3 {
				for _, smp := range s.Samples {
					if len(samples) < 3 {
						samples = append(samples, smp)
					}
				}
			}
		}
		for h := range b.traceSet {
			traceAll[h] = struct{}{}
		}
		for h := range b.caseSet {
			caseAll[h] = struct{}{}
		}
		perFlavour[fl] = map[string]any{"runs": bruns, "wall_s": round1(b.wall), "runs_per_hour": int(float64(bruns) / max(b.wall, 0.001) * 3600)}
	}
	distinct := len(traceAll)
	if si.NontrivialByCase {
		distinct = len(caseAll)
	}
	if len(samples) == 0 {
		samples = append(samples, "no non-trivial run among the first 40 of any worker")
	}
	var zero []string
	for _, name := range expectedProbes[prop] {
		if probes[name] == 0 {
			zero = append(zero, name)
		}
	}
	sort.Strings(zero)
	level := si.Level
	if level == "" {
		level = "exploration"
	}
	ev := map[string]any{
		"property_id": prop,
		"tier":        tier,
		"seed":        int64(seed),
		"level":       level,
		"wall_s":      round1(wall),
		"violations":  len(violations),
		"assumptions": append([]string{
			"sampling, not enumeration: a clean batch is evidence, not proof",
			"interleavings are explored at the granularity of instrumented operations (channel ops, select, lock/unlock, WaitGroup, go, map range) plus R13 preemption points in listed files",
			"the instrumented copy is semantically the repository code (fidelity self-test: the repository's own tests pass on it)",
		}, si.Assumptions...),
		"coverage": map[string]any{
			"evaluations":                  runs,
			"distinct_nontrivial":          distinct,
			"rule":                         si.Rule,
			"samples":                      samples,
			"nontrivial_runs":              nontrivial,
			"distinct_schedule_traces":     len(traceAll),
			"distinct_generated_cases":     len(caseAll),
			"seeds":                        fmt.Sprintf("base seed %d; run i uses tape splitmix64(seed, i), i = 0..%d", seed, runs),
			"per_build":                    perFlavour,
			"simulated_time":               "b6 has no timers or deadlines; the only meaningful measure of simulated time is scheduler steps",
			"scheduler_steps":              steps,
			"scheduling_decisions":         decisions,
			"context_switches":             switches,
			"tasks_created":                tasks,
			"preemptions_fired":            preempts,
			"faults_configured":            configured,
			"faults_fired":                 fired,
			"probes":                       probes,
			"probes_at_zero":               zero,
			"knob_histogram":               knobs,
			"deadlocked_or_livelocked":     dirty,
			"components_real":              si.Real,
			"components_stub":              si.Stubs,
			"race_detector":                si.NeedsRace,
			"violations_found":             violations,
			"known_findings_matched":       known,
			"workers_stopped_early":        stopped,
			"tree_hash":                    treeKey(),
			"fault_kinds_absent_by_design": "message loss/duplication/reordering, partitions, clock skew, torn or lost disk writes, allocation failure: b6 has no such surface (DESIGN.md §5)",
		},
	}
	os.MkdirAll(filepath.Join(verifDir, "evidence"), 0o755)
	b, _ := json.MarshalIndent(ev, "", " ")
	if err := os.WriteFile(filepath.Join(verifDir, "evidence", prop+".json"), b, 0o644); err != nil {
		trouble("writing evidence: %v", err)
	}
	if len(zero) > 0 {
		fmt.Fprintf(os.Stderr, "check: warning: probes at zero for %s: %v\n", prop, zero)
	}
}

func round1(f float64) float64 { return float64(int(f*10)) / 10 }

// expectedProbes lists, per property, the reach probes that a healthy batch
// should hit at least once; misses are reported under probes_at_zero (a
// warning, never an exit status).
var expectedProbes = map[string][]string{
	"C07": {"deleted-under-iterator"},
	"C12": {"map-order-permuted", "chan-blocked-then-woken"},
	"C13": {"rejection-fired"},
	"C14": {"snapshot-nested>=2"},
	"C15": {"cycle-in-references"},
	"C25": {"chan-blocked-then-woken"},
	"C26": {"preempted", "rwmutex-writer-waited"},
	"C27": {"pbf-multi-block", "pbf-group-overflow", "chan-blocked-then-woken"},
	"C28": {"chan-blocked-then-woken", "mutex-contended", "long-tail-checked"},
	"C35": {"preempted", "mutex-contended"},
	"C36": {"map-order-permuted", "chan-blocked-then-woken"},
	"C37": {"basic-build-ok", "compact-build-ok"},
	"C40": {"preempted", "rwmutex-writer-waited", "rwmutex-reader-waited-for-writer", "porcupine-ok"},
}
