#!/bin/sh
# Builds the driver and the instrumenter from files on disk only (offline)
# and warms the build cache for the current /repo tree.
set -e
cd "$(dirname "$0")"
export GOFLAGS=-mod=mod GOPROXY=off GOSUMDB=off GOTOOLCHAIN=local CGO_ENABLED=1
GO=/opt/veriftools/go1.26.8/bin/go
mkdir -p bin
(cd driver && $GO build -o ../check .)
(cd simgo && PATH=/opt/veriftools/go1.26.8/bin:$PATH $GO build -o ../bin/simgo .)
./check build
