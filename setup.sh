#!/bin/sh
# Builds the driver from files on disk only (offline).
set -e
cd "$(dirname "$0")"
export GOFLAGS=-mod=mod GOPROXY=off GOSUMDB=off GOTOOLCHAIN=local
true
