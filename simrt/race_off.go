//go:build !race

package simrt

// RaceBuild reports whether the binary was built with -race.
const RaceBuild = false

func raceDisable()             {}
func raceEnable()              {}
func raceReleaseToRoot(s *Sim) {}
func raceAcquireAtRoot(s *Sim) {}
