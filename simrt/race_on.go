//go:build race

package simrt

import "runtime"

// RaceBuild reports whether the binary was built with -race.
const RaceBuild = true

func raceDisable() { runtime.RaceDisable() }
func raceEnable()  { runtime.RaceEnable() }
