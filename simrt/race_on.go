//go:build race

package simrt

import (
	"runtime"
	"unsafe"
)

// RaceBuild reports whether the binary was built with -race.
const RaceBuild = true

func raceDisable() { runtime.RaceDisable() }
func raceEnable()  { runtime.RaceEnable() }

// raceReleaseToRoot publishes everything the calling task has done so far to
// the goroutine that called Run (and to nobody else: tasks never acquire
// from this address, so no happens-before edge between tasks is created).
// Without it the race detector, which cannot see the scheduler's hand-offs,
// would report the harness's own post-run reads of what the main task wrote.
func raceReleaseToRoot(s *Sim) { runtime.RaceReleaseMerge(unsafe.Pointer(&s.rootSync)) }

func raceAcquireAtRoot(s *Sim) { runtime.RaceAcquire(unsafe.Pointer(&s.rootSync)) }
