package simrt_test

import (
	"fmt"
	"os"
	"testing"
	"testing/synctest"

	"verif/simrt"
	"verif/simrt/serrgroup"
	"verif/simrt/ssync"
)

func bubble(t *testing.T, f func()) (rec string) {
	defer func() {
		if r := recover(); r != nil {
			rec = fmt.Sprint(r)
		}
	}()
	synctest.Test(t, func(t *testing.T) { f() })
	return ""
}

// a tiny pipeline: feeder, n workers, select with cancel, errgroup
func pipeline(workers, items, failAt int) (sum int, err error) {
	g := &serrgroup.Group{}
	c := make(chan int)
	done := make(chan struct{})
	var mu ssync.Mutex
	for w := 0; w < workers; w++ {
		g.Go(func() error {
			for v := range simrt.RangeChan("w.range", (<-chan int)(c)) {
				if v == failAt {
					return fmt.Errorf("fail at %d", v)
				}
				mu.Lock()
				sum += v
				mu.Unlock()
			}
			return nil
		})
	}
	g.Go(func() error {
		defer simrt.Close("feed.close", (chan<- int)(c))
		for i := 0; i < items; i++ {
			cs := simrt.CaseSend(c, i)
			cr := simrt.CaseRecv(done)
			switch simrt.Select("feed.select", false, cs, cr) {
			case 0:
			case 1:
				return nil
			}
		}
		return nil
	})
	err = g.Wait()
	return
}

func runPipeline(t *testing.T, seed uint64, workers, items, failAt int) (*simrt.Result, int, error) {
	var res *simrt.Result
	var sum int
	var err error
	bubble(t, func() {
		tape := simrt.NewTape(seed, 0)
		res = simrt.Run(simrt.Config{Tape: tape}, func() {
			sum, err = pipeline(workers, items, failAt)
		})
	})
	return res, sum, err
}

func TestDeterminism(t *testing.T) {
	hashes := map[uint64]bool{}
	for seed := uint64(0); seed < 200; seed++ {
		r1, s1, _ := runPipeline(t, seed, 3, 6, -1)
		r2, s2, _ := runPipeline(t, seed, 3, 6, -1)
		if r1.TraceHash != r2.TraceHash || s1 != s2 || s1 != 15 {
			t.Fatalf("seed %d: %x vs %x, sums %d %d", seed, r1.TraceHash, r2.TraceHash, s1, s2)
		}
		if r1.Deadlock || len(r1.Panics) > 0 {
			t.Fatalf("seed %d: %+v", seed, r1)
		}
		hashes[r1.TraceHash] = true
	}
	if len(hashes) < 100 {
		t.Fatalf("only %d distinct interleavings", len(hashes))
	}
	if os.Getenv("SIMRT_PRINT") != "" {
		fmt.Println("distinct", len(hashes))
	}
}

func TestDeadlockDetected(t *testing.T) {
	// all workers die on the first item; the feeder has no working cancel → deadlock
	found := false
	for seed := uint64(0); seed < 20; seed++ {
		var res *simrt.Result
		rec := bubble(t, func() {
			res = simrt.Run(simrt.Config{Tape: simrt.NewTape(seed, 0)}, func() {
				pipeline(1, 4, 0)
			})
		})
		if res.Deadlock {
			found = true
			if len(res.Stuck) == 0 || rec == "" {
				t.Fatalf("expected stuck tasks and a recovered bubble panic: %+v %q", res, rec)
			}
		}
	}
	if !found {
		t.Fatal("deadlock not detected")
	}
}

func TestReplay(t *testing.T) {
	for seed := uint64(0); seed < 50; seed++ {
		var r1, r2 *simrt.Result
		tape := simrt.NewTape(seed, 0)
		bubble(t, func() {
			r1 = simrt.Run(simrt.Config{Tape: tape}, func() { pipeline(4, 8, -1) })
		})
		rt := simrt.ReplayTape(tape.G.Rec, tape.S.Rec)
		bubble(t, func() {
			r2 = simrt.Run(simrt.Config{Tape: rt}, func() { pipeline(4, 8, -1) })
		})
		if r1.TraceHash != r2.TraceHash {
			t.Fatalf("replay diverged seed %d", seed)
		}
	}
}

func TestRWMutexWriterPreference(t *testing.T) {
	// reader holds RLock, writer waits, then the reader RLocks again: deadlock in real Go.
	var res *simrt.Result
	bubble(t, func() {
		res = simrt.Run(simrt.Config{Tape: simrt.ReplayTape(nil, nil)}, func() {
			var rw ssync.RWMutex
			rw.RLock()
			simrt.Go("writer", func() { rw.Lock(); rw.Unlock() })
			// the writer has now had a chance to announce itself only if scheduled;
			// force it by yielding until it is parked on the drain.
			for i := 0; i < 3; i++ {
				simrt.Yield("y")
			}
			rw.RLock()
			rw.RUnlock()
			rw.RUnlock()
		})
	})
	_ = res
}

var racyCounter int

func TestRacyToy(t *testing.T) {
	if os.Getenv("SIMRT_RACY") == "" {
		t.Skip("set SIMRT_RACY=1 (expects a race report under -race)")
	}
	bubble(t, func() {
		simrt.Run(simrt.Config{Tape: simrt.NewTape(1, 0)}, func() {
			var wg ssync.WaitGroup
			for i := 0; i < 2; i++ {
				wg.Add(1)
				simrt.Go("inc", func() { defer wg.Done(); simrt.Yield("a"); racyCounter++ })
			}
			wg.Wait()
		})
	})
}
