package simrt

import (
	"cmp"
	"fmt"
	"iter"
	"reflect"
	"sort"
)

// RangeMap replaces `for k, v := range m`. Under simulation the keys are
// snapshotted, put in a canonical total order, and then permuted by the
// tape (any order is legal Go, so this both owns and explores map order).
// Each key is looked up again before it is yielded, so entries deleted
// during the iteration are skipped as Go requires; entries added during the
// iteration are not visited, which Go permits.
func RangeMap[M ~map[K]V, K comparable, V any](site string, m M) iter.Seq2[K, V] {
	return func(yield func(K, V) bool) {
		t := Cur()
		if t == nil || len(m) < 2 {
			for k, v := range m {
				if !yield(k, v) {
					return
				}
			}
			return
		}
		keys := make([]K, 0, len(m))
		for k := range m {
			keys = append(keys, k)
		}
		SortKeys(keys)
		permute(t, keys)
		for _, k := range keys {
			v, ok := m[k]
			if !ok {
				continue
			}
			if !yield(k, v) {
				return
			}
		}
	}
}

//go:norace
func permuteDraws(t *Task, n int) (mode int, arg int) {
	s := &t.sim.tape.S
	mode = s.Draw(4)
	switch mode {
	case 2:
		arg = s.Draw(n)
	case 3:
		arg = s.Draw(1 << 16)
	}
	if mode != 0 {
		t.sim.probes[pMapShuffled]++
	}
	return
}

func permute[K any](t *Task, keys []K) {
	n := len(keys)
	mode, arg := permuteDraws(t, n)
	switch mode {
	case 1:
		for i, j := 0, n-1; i < j; i, j = i+1, j-1 {
			keys[i], keys[j] = keys[j], keys[i]
		}
	case 2:
		r := make([]K, 0, n)
		r = append(r, keys[arg:]...)
		r = append(r, keys[:arg]...)
		copy(keys, r)
	case 3:
		x := uint64(arg) + 1
		for i := n - 1; i > 0; i-- {
			j := int(splitmix(&x) % uint64(i+1))
			keys[i], keys[j] = keys[j], keys[i]
		}
	}
}

// SortKeys puts map keys of any comparable type into a canonical order that
// depends only on their values (never on addresses).
func SortKeys[K any](keys []K) {
	if len(keys) < 2 {
		return
	}
	switch ks := any(keys).(type) {
	case []string:
		sort.Strings(ks)
		return
	case []int:
		sort.Ints(ks)
		return
	case []uint64:
		sort.Slice(ks, func(i, j int) bool { return ks[i] < ks[j] })
		return
	case []int64:
		sort.Slice(ks, func(i, j int) bool { return ks[i] < ks[j] })
		return
	case []uint32:
		sort.Slice(ks, func(i, j int) bool { return ks[i] < ks[j] })
		return
	}
	sort.SliceStable(keys, func(i, j int) bool {
		return compareValues(reflect.ValueOf(&keys[i]).Elem(), reflect.ValueOf(&keys[j]).Elem(), 0) < 0
	})
}

func compareValues(a, b reflect.Value, depth int) int {
	switch a.Kind() {
	case reflect.Bool:
		x, y := a.Bool(), b.Bool()
		if x == y {
			return 0
		}
		if !x {
			return -1
		}
		return 1
	case reflect.Int, reflect.Int8, reflect.Int16, reflect.Int32, reflect.Int64:
		return cmp.Compare(a.Int(), b.Int())
	case reflect.Uint, reflect.Uint8, reflect.Uint16, reflect.Uint32, reflect.Uint64, reflect.Uintptr:
		return cmp.Compare(a.Uint(), b.Uint())
	case reflect.Float32, reflect.Float64:
		return cmp.Compare(a.Float(), b.Float())
	case reflect.String:
		return cmp.Compare(a.String(), b.String())
	case reflect.Struct:
		for i := 0; i < a.NumField(); i++ {
			if c := compareValues(a.Field(i), b.Field(i), depth); c != 0 {
				return c
			}
		}
		return 0
	case reflect.Array:
		for i := 0; i < a.Len(); i++ {
			if c := compareValues(a.Index(i), b.Index(i), depth); c != 0 {
				return c
			}
		}
		return 0
	case reflect.Interface:
		if a.IsNil() || b.IsNil() {
			if a.IsNil() && b.IsNil() {
				return 0
			}
			if a.IsNil() {
				return -1
			}
			return 1
		}
		ae, be := a.Elem(), b.Elem()
		if ae.Type() != be.Type() {
			return cmp.Compare(ae.Type().String(), be.Type().String())
		}
		return compareValues(ae, be, depth)
	case reflect.Pointer:
		if a.IsNil() || b.IsNil() {
			if a.IsNil() && b.IsNil() {
				return 0
			}
			if a.IsNil() {
				return -1
			}
			return 1
		}
		if a.Pointer() == b.Pointer() {
			return 0
		}
		if depth >= 2 {
			return 0
		}
		// Pointee order: value-based, so independent of allocation addresses.
		// Distinct pointers with equal pointees tie (stable sort keeps Go's
		// random order between them): PointerTies counts how often.
		c := compareShallow(a.Elem(), b.Elem(), depth+1)
		if c == 0 {
			PointerTies++
		}
		return c
	}
	return 0
}

// PointerTies counts pointer-keyed map entries whose order could not be
// made canonical (diagnostic for the determinism self-test).
var PointerTies int

func compareShallow(a, b reflect.Value, depth int) int {
	switch a.Kind() {
	case reflect.Map, reflect.Slice, reflect.Chan, reflect.Func, reflect.UnsafePointer:
		return cmp.Compare(fmt.Sprint(a.Len()), fmt.Sprint(b.Len()))
	}
	return compareValues(a, b, depth)
}
