// Package serrgroup replaces golang.org/x/sync/errgroup in instrumented
// code: the same API and semantics (v0.10.0) over simrt.Go and
// ssync.WaitGroup.
package serrgroup

import (
	"context"
	"fmt"
	"sync"

	"verif/simrt"
	"verif/simrt/ssync"
)

type token struct{}

type Group struct {
	cancel  func(error)
	wg      ssync.WaitGroup
	sem     chan token
	errOnce sync.Once
	err     error
}

func (g *Group) done() {
	if g.sem != nil {
		simrt.Recv("errgroup.done", (<-chan token)(g.sem))
	}
	g.wg.Done()
}

func WithContext(ctx context.Context) (*Group, context.Context) {
	ctx, cancel := context.WithCancelCause(ctx)
	return &Group{cancel: cancel}, ctx
}

func (g *Group) Wait() error {
	g.wg.Wait()
	if g.cancel != nil {
		g.cancel(g.err)
	}
	return g.err
}

func (g *Group) Go(f func() error) {
	if g.sem != nil {
		simrt.Send("errgroup.Go(limit)", (chan<- token)(g.sem), token{})
	}
	g.wg.Add(1)
	simrt.Go("errgroup.Go", func() {
		defer g.done()
		if err := f(); err != nil {
			g.errOnce.Do(func() {
				g.err = err
				if g.cancel != nil {
					g.cancel(g.err)
				}
			})
		}
	})
}

func (g *Group) TryGo(f func() error) bool {
	if g.sem != nil {
		select {
		case g.sem <- token{}:
		default:
			return false
		}
	}
	g.wg.Add(1)
	simrt.Go("errgroup.TryGo", func() {
		defer g.done()
		if err := f(); err != nil {
			g.errOnce.Do(func() {
				g.err = err
				if g.cancel != nil {
					g.cancel(g.err)
				}
			})
		}
	})
	return true
}

func (g *Group) SetLimit(n int) {
	if n < 0 {
		g.sem = nil
		return
	}
	if len(g.sem) != 0 {
		panic(fmt.Errorf("errgroup: modify limit while %v goroutines in the group are still active", len(g.sem)))
	}
	g.sem = make(chan token, n)
}
