// Package srand replaces math/rand in instrumented code: under simulation
// top-level functions draw from the run's decision tape; otherwise they
// defer to math/rand.
package srand

import (
	"math/rand"

	"verif/simrt"
)

type (
	Rand   = rand.Rand
	Source = rand.Source
)

func New(src Source) *Rand         { return rand.New(src) }
func NewSource(seed int64) Source { return rand.NewSource(seed) }
func Seed(seed int64)             {}

func draw(n int) (int, bool) { return simrt.DrawS(n) }

func Uint64() uint64 {
	if v, ok := draw(1 << 30); ok {
		return uint64(v)<<20 | 0x5eed
	}
	return rand.Uint64()
}

func Int63() int64 {
	if v, ok := draw(1 << 30); ok {
		return int64(v)
	}
	return rand.Int63()
}

func Int63n(n int64) int64 {
	if n <= 1<<30 {
		if v, ok := draw(int(n)); ok {
			return int64(v)
		}
	} else if v, ok := draw(1 << 30); ok {
		return int64(v)
	}
	return rand.Int63n(n)
}

func Int() int { return int(Int63()) }

func Intn(n int) int { return int(Int63n(int64(n))) }

func Int31n(n int32) int32 { return int32(Int63n(int64(n))) }

func Float64() float64 {
	if v, ok := draw(1 << 30); ok {
		return float64(v) / float64(1<<30)
	}
	return rand.Float64()
}

func Perm(n int) []int {
	p := make([]int, n)
	for i := range p {
		p[i] = i
	}
	Shuffle(n, func(i, j int) { p[i], p[j] = p[j], p[i] })
	return p
}

func Shuffle(n int, swap func(i, j int)) {
	for i := n - 1; i > 0; i-- {
		swap(i, Intn(i+1))
	}
}
