package simrt

// A Stream is one sequence of decisions. Values are small integers; 0 is
// always the "simplest" choice (continue the current task, no fault, first
// alternative), which is what shrinking converges to.
//
// A stream first replays Replay; past its end it either draws fresh values
// from a splitmix64 generator (Live) or yields zeros. Every value handed out
// is recorded in Rec, so Rec of a finished run is a complete replay tape.
type Stream struct {
	Replay []uint32
	Rec    []uint32
	Live   bool
	pos    int
	rng    uint64
}

//go:norace
func splitmix(x *uint64) uint64 {
	*x += 0x9e3779b97f4a7c15
	z := *x
	z = (z ^ (z >> 30)) * 0xbf58476d1ce4e5b9
	z = (z ^ (z >> 27)) * 0x94d049bb133111eb
	return z ^ (z >> 31)
}

// Mix derives a sub-seed.
func Mix(seed uint64, k uint64) uint64 {
	x := seed ^ (k+1)*0xd6e8feb86659fd93
	return splitmix(&x)
}

//go:norace
func (s *Stream) Seed(seed uint64) { s.rng = seed; s.Live = true }

// Draw returns a value in [0,n). n<=1 consumes nothing.
//
//go:norace
func (s *Stream) Draw(n int) int {
	if n <= 1 {
		return 0
	}
	var v uint32
	if s.pos < len(s.Replay) {
		v = s.Replay[s.pos] % uint32(n)
	} else if s.Live {
		v = uint32(splitmix(&s.rng) % uint64(n))
	}
	s.pos++
	if len(s.Rec) == cap(s.Rec) {
		n2 := make([]uint32, len(s.Rec), 2*cap(s.Rec)+256)
		for i := range s.Rec {
			n2[i] = s.Rec[i]
		}
		s.Rec = n2
	}
	s.Rec = s.Rec[:len(s.Rec)+1]
	s.Rec[len(s.Rec)-1] = v
	return int(v)
}

// Pos is the number of draws so far.
//
//go:norace
func (s *Stream) Pos() int { return s.pos }

// Tape holds the two decision streams of a run: G drives the workload
// generator and fault placement, S drives the scheduler (task choice, select
// order, map order, preemption).
type Tape struct {
	G Stream
	S Stream
}

// NewTape returns a live tape for (seed, run).
func NewTape(seed uint64, run uint64) *Tape {
	t := &Tape{}
	t.G.Seed(Mix(Mix(seed, run), 1))
	t.S.Seed(Mix(Mix(seed, run), 2))
	return t
}

// ReplayTape returns a non-live tape that replays g and s and yields zeros
// past their ends.
func ReplayTape(g, s []uint32) *Tape {
	t := &Tape{}
	t.G.Replay = g
	t.S.Replay = s
	return t
}
