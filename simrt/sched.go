// Package simrt is the runtime half of the deterministic simulator: a
// cooperative scheduler that runs inside a testing/synctest bubble and
// decides, from a seeded decision tape, which task proceeds at every
// scheduling point. The instrumenter (simgo) rewrites b6 so that every
// blocking or order-dependent construct goes through a wrapper in this
// package.
//
// Race-detector cooperation: the scheduler serialises tasks through channel
// hand-offs, which would normally make every access happen-before every
// later one and blind the race detector. All hand-offs are therefore done
// with runtime.RaceDisable() in force, and every function that touches
// simulator-owned shared memory is //go:norace and uses plain (non-atomic)
// accesses, so that the simulator contributes neither happens-before edges
// nor reports of its own. The program's own synchronisation (real channel
// operations, the real mutex inside ssync.Mutex, the real WaitGroup, the go
// statement) is executed with race detection enabled and is all the detector
// sees.
package simrt

import (
	"fmt"
	"runtime"
	"runtime/debug"
	"strings"
	"sync/atomic"
	"testing/synctest"
)

const (
	stRunning int32 = iota
	stParked
	stBlocked // inside a real blocking channel operation
	stDone
)

// A Waiter is the condition a parked task waits for. Ready is evaluated by
// the scheduler only, while every task is blocked.
type Waiter interface {
	Ready() bool
	Desc() string
}

// Task is one simulated goroutine.
type Task struct {
	ID       int
	Name     string
	state    atomic.Int32
	wait     Waiter
	site     string
	resume   chan struct{}
	sim      *Sim
	selCount int
	prio     int
}

// Event is one scheduling decision.
type Event struct {
	Step     int    `json:"step"`
	Task     int    `json:"task"`
	Name     string `json:"name,omitempty"`
	Site     string `json:"site"`
	Runnable int    `json:"runnable"`
}

// TaskPanic records a panic that escaped a task.
type TaskPanic struct {
	Task  string `json:"task"`
	Value string `json:"value"`
	Stack string `json:"stack"`
}

// Stuck describes one unfinished task at deadlock or budget exhaustion.
type Stuck struct {
	Task  string `json:"task"`
	State string `json:"state"`
	Site  string `json:"site"`
	Wait  string `json:"wait,omitempty"`
}

// Config configures one run.
type Config struct {
	Tape     *Tape
	MaxSteps int  // scheduler decisions before the run is declared a livelock; 0 = 2_000_000
	KeepLog  bool // record every decision (replay / samples)
	LogLimit int  // max events kept when KeepLog; 0 = 20000
	Preempt  bool // enable P() preemption points
	Knobs    map[string]int
}

// Result is what a run produced.
type Result struct {
	Steps       int         `json:"steps"`
	Decisions   int         `json:"decisions"` // steps with >=2 runnable tasks
	Switches    int         `json:"switches"`
	Tasks       int         `json:"tasks"`
	TraceHash   uint64      `json:"trace_hash"`
	Deadlock    bool        `json:"deadlock"`
	Livelock    bool        `json:"livelock"`
	Stuck       []Stuck     `json:"stuck,omitempty"`
	StuckStacks string      `json:"stuck_stacks,omitempty"`
	Panics      []TaskPanic `json:"panics,omitempty"`
	Log         []Event     `json:"log,omitempty"`
	Preempts    int         `json:"preempts"`
	Strategy    int         `json:"strategy"` // 0 uniform/sticky, 1 PCT-style, 2 starve-one
	Probes      []int64     `json:"-"`
}

// Sim is the state of one run.
type Sim struct {
	tape      *Tape
	tasks     []*Task
	cur       *Task
	live      int
	nextID    int
	steps     int
	decisions int
	switches  int
	maxSteps  int
	hash      uint64
	keepLog   bool
	logLimit  int
	log       []Event
	panics    []TaskPanic
	clock     int64
	switchPct int
	force     bool
	// scheduling strategy (0 = uniform with switch probability)
	strategy  int
	pctChange []int
	pctLow    int
	starveID  int
	// preemption
	preemptOn   bool
	pcount      int
	nextP       int
	pmean       int
	pbudget     int
	preempts    int
	knobs       map[string]int
	probes      []int64
	runnableBuf []*Task
	rootSync    int64
}

const (
	stratUniform = iota
	stratPCT
	stratStarve
)

// Progress counts scheduling steps of all simulations of this process; the
// worker's watchdog reads it to tell a slow run from one that is stuck.
var Progress atomic.Int64

var theSim *Sim

// FairSchedule reports whether the running simulation picks tasks with a
// strategy under which every runnable task is chosen with a probability
// bounded away from zero at every decision (uniform / sticky). PCT-style and
// starve-one schedules are deliberately unfair: oracles that rest on a
// probabilistic fairness argument must not be applied under them.
//
//go:norace
func FairSchedule() bool { return theSim == nil || theSim.strategy == stratUniform }

// Active reports whether a simulation is running.
//
//go:norace
func Active() bool { return theSim != nil }

// Cur returns the running task, or nil when no simulation is active.
//
//go:norace
func Cur() *Task {
	s := theSim
	if s == nil {
		return nil
	}
	return s.cur
}

// Stamp returns the next value of the run's global event counter; used to
// stamp invoke/return events of recorded histories. Only one task runs at a
// time, so stamps are totally ordered consistently with real-time order.
//
//go:norace
func Stamp() int64 {
	s := theSim
	if s == nil {
		return 0
	}
	s.clock++
	return s.clock
}

// G returns the generator stream of the active run's tape.
//
//go:norace
func G() *Stream {
	s := theSim
	if s == nil {
		return nil
	}
	return &s.tape.G
}

//go:norace
func fnv(h uint64, v uint64) uint64 {
	h ^= v
	h *= 0x100000001b3
	return h
}

//go:norace
func hashStr(h uint64, s string) uint64 {
	for i := 0; i < len(s); i++ {
		h = fnv(h, uint64(s[i]))
	}
	return h
}

// Run executes main as task 0 under the scheduler and returns when every
// task finished, or on deadlock, or when the step budget is exhausted. It
// must be called from the root goroutine of a synctest bubble.
//
//go:norace
func Run(cfg Config, main func()) *Result {
	s := &Sim{tape: cfg.Tape, maxSteps: cfg.MaxSteps, keepLog: cfg.KeepLog, logLimit: cfg.LogLimit, knobs: cfg.Knobs}
	if s.maxSteps == 0 {
		s.maxSteps = 2_000_000
	}
	if s.logLimit == 0 {
		s.logLimit = 20000
	}
	s.hash = 0xcbf29ce484222325
	s.probes = make([]int64, len(probeNames))
	s.runnableBuf = make([]*Task, 0, 16)
	switch s.tape.S.Draw(9) {
	case 6, 7:
		// PCT-style: every task gets a random priority when created, the
		// runnable task of highest priority always runs, and at d change
		// points (scheduling decisions drawn from [0, horizon)) the running
		// task drops below every other task.
		s.strategy = stratPCT
		s.switchPct = 50
		horizon := []int{20, 100, 500, 3000}[s.tape.S.Draw(4)]
		for d := 1 + s.tape.S.Draw(3); d > 0; d-- {
			s.pctChange = append(s.pctChange, s.tape.S.Draw(horizon))
		}
		s.pctLow = 1 << 30
	case 8:
		// starve-one: one task (chosen by id) only runs when nothing else can
		s.strategy = stratStarve
		s.switchPct = []int{10, 50, 100}[s.tape.S.Draw(3)]
		s.starveID = s.tape.S.Draw(6)
	case 0:
		s.switchPct = 50
	case 1:
		s.switchPct = 10
	case 2:
		s.switchPct = 90
	case 3:
		s.switchPct = 3
	case 4:
		s.switchPct = 30
	case 5:
		s.switchPct = 100
	}
	if cfg.Preempt {
		s.preemptOn = true
		switch s.tape.S.Draw(5) {
		case 0:
			s.preemptOn = false
		case 1:
			s.pmean = 5
		case 2:
			s.pmean = 40
		case 3:
			s.pmean = 400
		case 4:
			s.pmean = 4000
		}
		s.pbudget = 24
		if s.preemptOn {
			s.nextP = 1 + s.tape.S.Draw(2*s.pmean)
		}
	}
	theSim = s
	t := s.newTask("main")
	go t.body(main) // go statement executed with race detection enabled: creation edge
	raceDisable()
	res := s.loop()
	raceEnable()
	raceAcquireAtRoot(s)
	if res.Deadlock || res.Livelock {
		s.describeStuck(res) // uses fmt: only with race detection back on
	}
	theSim = nil
	return res
}

//go:norace
func (s *Sim) newTask(name string) *Task {
	t := &Task{ID: s.nextID, Name: name, sim: s, resume: make(chan struct{})}
	s.nextID++
	if s.strategy == stratPCT {
		t.prio = 1<<30 + 1 + s.tape.S.Draw(1<<16)
	}
	t.state.Store(stParked)
	s.tasks = append(s.tasks, t)
	s.live++
	return t
}

//go:norace
func (t *Task) body(fn func()) {
	raceDisable()
	<-t.resume
	raceEnable()
	defer t.finish()
	fn()
}

//go:norace
func (t *Task) finish() {
	if r := recover(); r != nil {
		t.sim.panics = append(t.sim.panics, TaskPanic{Task: t.Name, Value: fmt.Sprint(r), Stack: string(debug.Stack())})
	}
	raceReleaseToRoot(t.sim)
	raceDisable()
	t.sim.live--
	t.state.Store(stDone)
	raceEnable()
}

// Park is a scheduling point: the task stops until the scheduler resumes
// it, which it does only once w (if any) is ready.
//
//go:norace
func (t *Task) Park(site string, w Waiter) {
	s := t.sim
	if s.live == 1 && (w == nil || w.Ready()) {
		// Nothing else can run: no decision to make.
		s.steps++
		return
	}
	raceReleaseToRoot(s)
	raceDisable()
	t.site = site
	t.wait = w
	t.state.Store(stParked)
	<-t.resume
	raceEnable()
}

// BlockBegin marks the task as about to block in a real operation.
//
//go:norace
func (t *Task) BlockBegin(site string) {
	raceReleaseToRoot(t.sim)
	raceDisable()
	t.site = site
	t.state.Store(stBlocked)
	raceEnable()
}

// BlockEnd is called right after the real blocking operation returned (the
// task was woken by another task's operation); it parks so that the waker
// keeps running alone.
//
//go:norace
func (t *Task) BlockEnd() {
	raceDisable()
	t.wait = nil
	t.state.Store(stParked)
	<-t.resume
	raceEnable()
}

//go:norace
func stateName(st int32) string {
	switch st {
	case stRunning:
		return "blocked-outside-wrappers"
	case stParked:
		return "parked"
	case stBlocked:
		return "blocked-in-channel-op"
	}
	return "done"
}

//go:norace
func (s *Sim) loop() *Result {
	res := &Result{}
	for {
		synctest.Wait()
		run := s.runnableBuf[:0]
		unfinished := 0
		w := 0
		for _, t := range s.tasks {
			st := t.state.Load()
			if st == stDone {
				continue
			}
			s.tasks[w] = t
			w++
			unfinished++
			if st == stParked && (t.wait == nil || t.wait.Ready()) {
				run = append(run, t)
			}
		}
		for i := w; i < len(s.tasks); i++ {
			s.tasks[i] = nil
		}
		s.tasks = s.tasks[:w]
		if unfinished == 0 {
			break
		}
		if len(run) == 0 {
			res.Deadlock = true
			break
		}
		if s.steps >= s.maxSteps {
			res.Livelock = true
			break
		}
		n := len(run)
		pick := 0
		curIdx := -1
		for i, t := range run {
			if t == s.cur {
				curIdx = i
			}
		}
		if n > 1 {
			s.decisions++
			switch {
			case s.strategy == stratPCT && !s.force:
				for _, c := range s.pctChange {
					if c == s.decisions && curIdx >= 0 {
						s.pctLow--
						run[curIdx].prio = s.pctLow
					}
				}
				for i, t := range run {
					if t.prio > run[pick].prio || (t.prio == run[pick].prio && t.ID < run[pick].ID) {
						pick = i
					}
				}
			case s.strategy == stratStarve && !s.force:
				// candidates: everybody but the starved task
				victim := -1
				for i, t := range run {
					if t.ID == s.starveID {
						victim = i
					}
				}
				m := n
				if victim >= 0 {
					m--
				}
				if m == 1 {
					pick = 0
					if victim == 0 {
						pick = 1
					}
				} else {
					stay := curIdx >= 0 && curIdx != victim && s.tape.S.Draw(100) <= 100-s.switchPct
					if stay {
						pick = curIdx
					} else {
						k := s.tape.S.Draw(m)
						if victim >= 0 && k >= victim {
							k++
						}
						pick = k
					}
				}
			case curIdx >= 0:
				// candidates: current first, then the others by id
				sw := s.force
				if !sw {
					c := s.tape.S.Draw(100)
					sw = c > 100-s.switchPct
				}
				if sw {
					k := s.tape.S.Draw(n - 1) // index among the others
					if k >= curIdx {
						k++
					}
					pick = k
				} else {
					pick = curIdx
				}
			default:
				pick = s.tape.S.Draw(n)
			}
		}
		s.force = false
		t := run[pick]
		if t != s.cur {
			s.switches++
		}
		s.steps++
		Progress.Add(1)
		s.hash = hashStr(fnv(s.hash, uint64(t.ID)), t.site)
		if n > 1 {
			s.hash = fnv(s.hash, uint64(n))
		}
		if s.keepLog && len(s.log) < s.logLimit {
			s.log = append(s.log, Event{Step: s.steps, Task: t.ID, Name: t.Name, Site: t.site, Runnable: n})
		}
		s.cur = t
		t.state.Store(stRunning)
		t.resume <- struct{}{}
	}
	res.Steps = s.steps
	res.Decisions = s.decisions
	res.Switches = s.switches
	res.Tasks = s.nextID
	res.TraceHash = s.hash
	res.Panics = s.panics
	res.Log = s.log
	res.Preempts = s.preempts
	res.Strategy = s.strategy
	res.Probes = s.probes
	s.cur = nil
	return res
}

//go:norace
func (s *Sim) describeStuck(res *Result) {
	for _, t := range s.tasks {
		st := t.state.Load()
		if st == stDone {
			continue
		}
		d := Stuck{Task: fmt.Sprintf("%d:%s", t.ID, t.Name), State: stateName(st), Site: t.site}
		if st == stParked && t.wait != nil {
			d.Wait = t.wait.Desc()
		}
		res.Stuck = append(res.Stuck, d)
	}
	buf := make([]byte, 1<<18)
	n := runtime.Stack(buf, true)
	res.StuckStacks = filterStacks(string(buf[:n]))
}

// filterStacks keeps the goroutine stacks that mention the b6 module.
func filterStacks(all string) string {
	var out []string
	for _, g := range strings.Split(all, "\n\n") {
		if strings.Contains(g, "diagonal.works/b6") {
			if len(g) > 4000 {
				g = g[:4000]
			}
			out = append(out, g)
		}
		if len(out) >= 12 {
			break
		}
	}
	return strings.Join(out, "\n\n")
}

// Go starts fn as a new task (or as a plain goroutine when no simulation is
// active) and is a scheduling point for the caller.
//
//go:norace
func Go(site string, fn func()) {
	t := Cur()
	if t == nil {
		go fn()
		return
	}
	nt := t.sim.newTask(site)
	go nt.body(fn)
	t.Park(site, nil)
}

// GoNamed is Go with an explicit task name (harness clients).
//
//go:norace
func GoNamed(name string, fn func()) {
	t := Cur()
	if t == nil {
		go fn()
		return
	}
	nt := t.sim.newTask(name)
	go nt.body(fn)
}

// Yield is an explicit scheduling point.
//
//go:norace
func Yield(site string) {
	if t := Cur(); t != nil {
		t.Park(site, nil)
	}
}

// P is an optional preemption point inserted at function entries and loop
// heads of selected files. It costs a counter increment unless the run's
// preemption countdown (drawn from the tape) expires, in which case the task
// yields and the scheduler is forced to pick another runnable task.
//
//go:norace
func P(site string) {
	s := theSim
	if s == nil || !s.preemptOn {
		return
	}
	t := s.cur
	if t == nil || s.live < 2 {
		return
	}
	s.pcount++
	if s.pcount < s.nextP || s.pbudget <= 0 {
		return
	}
	s.pbudget--
	s.preempts++
	s.probes[pPreempted]++
	s.nextP = s.pcount + 1 + s.tape.S.Draw(2*s.pmean)
	s.force = true
	t.Park(site, nil)
}

// NumCPU replaces runtime.NumCPU() in instrumented code: a per-run knob.
//
//go:norace
func NumCPU() int {
	if s := theSim; s != nil {
		if v, ok := s.knobs["NumCPU"]; ok {
			return v
		}
		return 2
	}
	if v, ok := staticKnobs["NumCPU"]; ok {
		return v
	}
	return runtime.NumCPU()
}

var staticKnobs = map[string]int{}

// SetStaticKnob sets a knob that also applies outside Run (fixture code).
func SetStaticKnob(name string, v int) { staticKnobs[name] = v }

// KnobInt replaces selected constants in instrumented code.
//
//go:norace
func KnobInt(name string, def int) int {
	if s := theSim; s != nil {
		if v, ok := s.knobs[name]; ok {
			return v
		}
	}
	if v, ok := staticKnobs[name]; ok {
		return v
	}
	return def
}

var probeNames []string

// NewProbe registers a reach probe; call at init time only.
func NewProbe(name string) int {
	probeNames = append(probeNames, name)
	return len(probeNames) - 1
}

// ProbeNames lists registered probes.
func ProbeNames() []string { return probeNames }

// Hit counts a probe for the active run.
//
//go:norace
func Hit(p int) {
	if s := theSim; s != nil && p < len(s.probes) {
		s.probes[p]++
	}
}

var (
	pSelectMultiReady = NewProbe("select-multiple-ready")
	pChanBlocked      = NewProbe("chan-blocked-then-woken")
	pMutexContended   = NewProbe("mutex-contended")
	pRWWriterWaited   = NewProbe("rwmutex-writer-waited")
	pRWReaderWaited   = NewProbe("rwmutex-reader-waited-for-writer")
	pMapShuffled      = NewProbe("map-order-permuted")
	pPreempted        = NewProbe("preempted")
)

// Exported probe ids used by sub-packages.
func ProbeMutexContended() int { return pMutexContended }
func ProbeRWWriterWaited() int { return pRWWriterWaited }
func ProbeRWReaderWaited() int { return pRWReaderWaited }

// Alive reports whether the task with the given id has not finished.
//
//go:norace
func Alive(id int) bool {
	s := theSim
	if s == nil {
		return false
	}
	for _, t := range s.tasks {
		if t != nil && t.ID == id {
			return t.state.Load() != stDone
		}
	}
	return false
}

// DrawS draws from the scheduler stream on behalf of instrumented program
// randomness (math/rand replacement).
//
//go:norace
func DrawS(n int) (int, bool) {
	s := theSim
	if s == nil || s.cur == nil {
		return 0, false
	}
	return s.tape.S.Draw(n), true
}

// Go0..Go3 replace `go f(args...)`: the function value and the arguments are
// evaluated by the caller, at the go statement, as Go requires.
func Go0(site string, f func()) { Go(site, f) }

func Go1[A any](site string, f func(A), a A) { Go(site, func() { f(a) }) }

func Go2[A, B any](site string, f func(A, B), a A, b B) { Go(site, func() { f(a, b) }) }

func Go3[A, B, C any](site string, f func(A, B, C), a A, b B, c C) {
	Go(site, func() { f(a, b, c) })
}

// NumCPUOr replaces runtime.NumCPU(): a knob under simulation (and when a
// static knob is set), the real value otherwise.
//
//go:norace
func NumCPUOr(real func() int) int {
	if s := theSim; s != nil {
		if v, ok := s.knobs["NumCPU"]; ok {
			return v
		}
		return 2
	}
	if v, ok := staticKnobs["NumCPU"]; ok {
		return v
	}
	return real()
}

// SetKnob sets a knob for the active run (call from the main task before
// starting the goroutines that read it).
//
//go:norace
func SetKnob(name string, v int) {
	if s := theSim; s != nil {
		s.knobs[name] = v
	}
}
