package simrt

import (
	"iter"
	"math/rand/v2"
	"reflect"
)

// Send replaces `ch <- v`.
//
//go:norace
func Send[T any](site string, ch chan<- T, v T) {
	t := Cur()
	if t == nil {
		ch <- v
		return
	}
	t.Park(site, nil)
	select {
	case ch <- v:
		return
	default:
	}
	blockingSend(t, site, ch, v)
}

//go:norace
func blockingSend[T any](t *Task, site string, ch chan<- T, v T) {
	t.sim.probes[pChanBlocked]++
	t.BlockBegin(site)
	defer func() {
		if r := recover(); r != nil {
			t.BlockEnd()
			panic(r)
		}
	}()
	ch <- v
	t.BlockEnd()
}

// Recv replaces `<-ch` used as an expression or statement.
//
//go:norace
func Recv[T any](site string, ch <-chan T) T {
	v, _ := Recv2(site, ch)
	return v
}

// Recv2 replaces `v, ok := <-ch`.
//
//go:norace
func Recv2[T any](site string, ch <-chan T) (T, bool) {
	t := Cur()
	if t == nil {
		v, ok := <-ch
		return v, ok
	}
	t.Park(site, nil)
	select {
	case v, ok := <-ch:
		return v, ok
	default:
	}
	t.sim.probes[pChanBlocked]++
	t.BlockBegin(site)
	v, ok := <-ch
	t.BlockEnd()
	return v, ok
}

// Close replaces close(ch).
//
//go:norace
func Close[T any](site string, ch chan<- T) {
	if t := Cur(); t != nil {
		t.Park(site, nil)
	}
	close(ch)
}

// RangeChan replaces `for v := range ch`.
func RangeChan[T any](site string, ch <-chan T) iter.Seq[T] {
	return func(yield func(T) bool) {
		for {
			v, ok := Recv2(site, ch)
			if !ok {
				return
			}
			if !yield(v) {
				return
			}
		}
	}
}

// SelCase is one communication clause of a rewritten select statement.
type SelCase interface {
	try() bool
	peek() bool // would try succeed? (approximation by channel length; probes only)
	rcase() reflect.SelectCase
	done(v reflect.Value, ok bool)
}

// RecvC is a receive clause; after Select returns its index, V and OK hold
// the received value.
type RecvC[T any] struct {
	ch <-chan T
	V  T
	OK bool
}

// CaseRecv builds a receive clause.
func CaseRecv[T any](ch <-chan T) *RecvC[T] { return &RecvC[T]{ch: ch} }

func (c *RecvC[T]) try() bool {
	if c.ch == nil {
		return false
	}
	select {
	case c.V, c.OK = <-c.ch:
		return true
	default:
		return false
	}
}

func (c *RecvC[T]) peek() bool { return c.ch != nil && len(c.ch) > 0 }

func (c *RecvC[T]) rcase() reflect.SelectCase {
	if c.ch == nil {
		return reflect.SelectCase{Dir: reflect.SelectRecv}
	}
	return reflect.SelectCase{Dir: reflect.SelectRecv, Chan: reflect.ValueOf(c.ch)}
}

func (c *RecvC[T]) done(v reflect.Value, ok bool) {
	c.OK = ok
	if ok {
		c.V = v.Interface().(T)
	} else {
		var z T
		c.V = z
	}
}

// SendC is a send clause.
type SendC[T any] struct {
	ch chan<- T
	v  T
}

// CaseSend builds a send clause.
func CaseSend[T any](ch chan<- T, v T) *SendC[T] { return &SendC[T]{ch: ch, v: v} }

func (c *SendC[T]) try() bool {
	if c.ch == nil {
		return false
	}
	select {
	case c.ch <- c.v:
		return true
	default:
		return false
	}
}

func (c *SendC[T]) peek() bool { return c.ch != nil && len(c.ch) < cap(c.ch) }

func (c *SendC[T]) rcase() reflect.SelectCase {
	if c.ch == nil {
		return reflect.SelectCase{Dir: reflect.SelectSend}
	}
	// reflect.ValueOf on an interface-typed T holding nil needs care.
	v := reflect.ValueOf(&c.v).Elem()
	return reflect.SelectCase{Dir: reflect.SelectSend, Chan: reflect.ValueOf(c.ch), Send: v}
}

func (c *SendC[T]) done(reflect.Value, bool) {}

func reflectSelect(cases []SelCase, hasDefault bool) int {
	rc := make([]reflect.SelectCase, 0, len(cases)+1)
	for _, c := range cases {
		rc = append(rc, c.rcase())
	}
	if hasDefault {
		rc = append(rc, reflect.SelectCase{Dir: reflect.SelectDefault})
	}
	i, v, ok := reflect.Select(rc)
	if i == len(cases) {
		return -1
	}
	cases[i].done(v, ok)
	return i
}

// Select replaces a select statement: it returns the index of the clause
// that proceeded, or -1 for default. Among clauses that are ready, the tape
// decides (rotation start), instead of the Go runtime's private RNG.
//
//go:norace
func Select(site string, hasDefault bool, cases ...SelCase) int {
	n := len(cases)
	t := Cur()
	if t == nil {
		// Plain Go semantics, including the random choice among ready cases.
		if n > 0 {
			start := rand.IntN(n)
			for i := 0; i < n; i++ {
				k := (start + i) % n
				if cases[k].try() {
					return k
				}
			}
		}
		if hasDefault {
			return -1
		}
		return reflectSelect(cases, false)
	}
	t.Park(site, nil)
	if n > 0 {
		// Rotating start: the tape picks an offset and a per-task counter is
		// added, so that an all-zero (shrunk) tape still alternates between
		// ready clauses instead of starving one for ever - a schedule that
		// Go's uniformly random select produces with probability zero.
		start := selectStart(t, n)
		ready := 0
		for i := 0; i < n; i++ {
			if cases[i].peek() {
				ready++
			}
		}
		if ready > 1 {
			t.sim.probes[pSelectMultiReady]++
		}
		for i := 0; i < n; i++ {
			k := (start + i) % n
			if cases[k].try() {
				return k
			}
		}
	}
	if hasDefault {
		return -1
	}
	return blockingSelect(t, site, cases)
}

//go:norace
func selectStart(t *Task, n int) int {
	t.selCount++
	return (t.sim.tape.S.Draw(n) + t.selCount) % n
}

//go:norace
func blockingSelect(t *Task, site string, cases []SelCase) int {
	t.sim.probes[pChanBlocked]++
	t.BlockBegin(site)
	defer func() {
		if r := recover(); r != nil {
			t.BlockEnd()
			panic(r)
		}
	}()
	k := reflectSelect(cases, false)
	t.BlockEnd()
	return k
}
