module verif/simrt

go 1.25
