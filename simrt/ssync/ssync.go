// Package ssync replaces package sync in instrumented code. Every type
// wraps the real primitive (so the race detector sees the program's real
// synchronisation) and adds admission control by the simulator's scheduler:
// a task is only resumed when the primitive can be acquired, so a real lock
// is never contended and no goroutine ever blocks in a way the synctest
// bubble cannot see.
package ssync

import (
	"sync"
	"sync/atomic"

	"verif/simrt"
)

type (
	Locker = sync.Locker
	Map    = sync.Map
	Pool   = sync.Pool
)

// Mutex replaces sync.Mutex.
type Mutex struct {
	mu   sync.Mutex
	held int32
	// lastOwner is the id+1 of the task that locked the mutex last
	lastOwner int32
}

type mutexWaiter Mutex

//go:norace
func (w *mutexWaiter) Ready() bool  { return w.held == 0 }
func (w *mutexWaiter) Desc() string { return "Mutex.Lock: mutex is held" }

//go:norace
func (m *Mutex) Lock() {
	t := simrt.Cur()
	if t == nil {
		m.mu.Lock()
		return
	}
	if m.held != 0 {
		simrt.Hit(simrt.ProbeMutexContended())
	}
	t.Park("sync.Mutex.Lock", (*mutexWaiter)(m))
	m.held = 1
	m.lastOwner = int32(t.ID) + 1
	m.mu.Lock()
}

//go:norace
func (m *Mutex) TryLock() bool {
	t := simrt.Cur()
	if t == nil {
		return m.mu.TryLock()
	}
	t.Park("sync.Mutex.TryLock", nil)
	if m.held != 0 {
		return false
	}
	// Buggify: a critical section without a scheduling point inside is
	// atomic under this scheduler, so a TryLock would never meet a held
	// lock although in a real execution another goroutine may be inside its
	// (short) critical section at this very moment. When another task that
	// is still running used this mutex last, one TryLock in eight fails as
	// if that had happened.
	if m.lastOwner != 0 && m.lastOwner != int32(t.ID)+1 && simrt.Alive(int(m.lastOwner)-1) {
		if v, ok := simrt.DrawS(8); ok && v == 7 {
			simrt.Hit(simrt.ProbeMutexContended())
			return false
		}
	}
	m.held = 1
	m.lastOwner = int32(t.ID) + 1
	m.mu.Lock()
	return true
}

//go:norace
func (m *Mutex) Unlock() {
	if simrt.Cur() != nil {
		m.held = 0
	}
	m.mu.Unlock()
}

// RWMutex replaces sync.RWMutex and models Go's writer preference exactly:
// writers serialise on an internal mutex; the writer that owns it announces
// itself, after which new readers wait, and proceeds once active readers
// have drained.
type RWMutex struct {
	mu        sync.RWMutex
	wowner    int32 // a writer owns the internal writer mutex (announced or holding)
	readers   int32
	exclusive int32
}

type rwWriterGate RWMutex
type rwReaderDrain RWMutex
type rwReaderGate RWMutex

//go:norace
func (w *rwWriterGate) Ready() bool  { return w.wowner == 0 }
func (w *rwWriterGate) Desc() string { return "RWMutex.Lock: another writer holds or awaits the lock" }

//go:norace
func (w *rwReaderDrain) Ready() bool  { return w.readers == 0 }
func (w *rwReaderDrain) Desc() string { return "RWMutex.Lock: waiting for active readers to RUnlock" }

//go:norace
func (w *rwReaderGate) Ready() bool { return w.wowner == 0 }
func (w *rwReaderGate) Desc() string {
	return "RWMutex.RLock: a writer holds the lock or is waiting for it (writer preference)"
}

//go:norace
func (m *RWMutex) Lock() {
	t := simrt.Cur()
	if t == nil {
		m.mu.Lock()
		return
	}
	t.Park("sync.RWMutex.Lock", (*rwWriterGate)(m))
	m.wowner = 1
	if m.readers != 0 {
		simrt.Hit(simrt.ProbeRWWriterWaited())
	}
	t.Park("sync.RWMutex.Lock(drain)", (*rwReaderDrain)(m))
	m.exclusive = 1
	m.mu.Lock()
}

//go:norace
func (m *RWMutex) Unlock() {
	if simrt.Cur() != nil {
		m.exclusive = 0
		m.wowner = 0
	}
	m.mu.Unlock()
}

//go:norace
func (m *RWMutex) RLock() {
	t := simrt.Cur()
	if t == nil {
		m.mu.RLock()
		return
	}
	if m.wowner != 0 {
		simrt.Hit(simrt.ProbeRWReaderWaited())
	}
	t.Park("sync.RWMutex.RLock", (*rwReaderGate)(m))
	m.readers++
	m.mu.RLock()
}

//go:norace
func (m *RWMutex) RUnlock() {
	if simrt.Cur() != nil {
		m.readers--
	}
	m.mu.RUnlock()
}

//go:norace
func (m *RWMutex) TryLock() bool {
	t := simrt.Cur()
	if t == nil {
		return m.mu.TryLock()
	}
	t.Park("sync.RWMutex.TryLock", nil)
	if m.wowner != 0 || m.readers != 0 {
		return false
	}
	m.wowner, m.exclusive = 1, 1
	m.mu.Lock()
	return true
}

//go:norace
func (m *RWMutex) TryRLock() bool {
	t := simrt.Cur()
	if t == nil {
		return m.mu.TryRLock()
	}
	t.Park("sync.RWMutex.TryRLock", nil)
	if m.wowner != 0 {
		return false
	}
	m.readers++
	m.mu.RLock()
	return true
}

type rlocker RWMutex

func (r *rlocker) Lock()   { (*RWMutex)(r).RLock() }
func (r *rlocker) Unlock() { (*RWMutex)(r).RUnlock() }

func (m *RWMutex) RLocker() Locker { return (*rlocker)(m) }

// WaitGroup replaces sync.WaitGroup.
type WaitGroup struct {
	wg sync.WaitGroup
	n  int64
}

type wgWaiter WaitGroup

//go:norace
func (w *wgWaiter) Ready() bool  { return w.n <= 0 }
func (w *wgWaiter) Desc() string { return "WaitGroup.Wait: counter is not zero" }

// Add keeps a shadow counter for the scheduler. Under simulation it is a
// plain access (tasks are serialised; an atomic would add happens-before
// edges the real WaitGroup does not have); outside it must be atomic.
//
//go:norace
func (w *WaitGroup) Add(d int) {
	if simrt.Active() {
		w.n += int64(d)
	} else {
		atomic.AddInt64(&w.n, int64(d))
	}
	w.wg.Add(d)
}

func (w *WaitGroup) Done() { w.Add(-1) }

func (w *WaitGroup) Wait() {
	if t := simrt.Cur(); t != nil {
		t.Park("sync.WaitGroup.Wait", (*wgWaiter)(w))
	}
	w.wg.Wait()
}

// Once replaces sync.Once.
type Once struct {
	o  sync.Once
	st int32 // 0 idle, 1 running, 2 done (simulation only)
}

type onceWaiter Once

//go:norace
func (w *onceWaiter) Ready() bool  { return w.st != 1 }
func (w *onceWaiter) Desc() string { return "Once.Do: another task is inside Do" }

//go:norace
func (o *Once) Do(f func()) {
	t := simrt.Cur()
	if t == nil {
		o.o.Do(f)
		return
	}
	if o.st == 1 {
		t.Park("sync.Once.Do", (*onceWaiter)(o))
	}
	if o.st == 2 {
		o.o.Do(func() {}) // acquire edge
		return
	}
	o.st = 1
	defer o.finish()
	o.o.Do(f)
}

//go:norace
func (o *Once) finish() { o.st = 2 }

// Cond replaces sync.Cond.
type Cond struct {
	L       Locker
	waiters []*condWaiter
}

type condWaiter struct{ woken bool }

//go:norace
func (w *condWaiter) Ready() bool  { return w.woken }
func (w *condWaiter) Desc() string { return "Cond.Wait: not signalled" }

func NewCond(l Locker) *Cond { return &Cond{L: l} }

//go:norace
func (c *Cond) Wait() {
	t := simrt.Cur()
	if t == nil {
		panic("ssync.Cond used outside simulation is not supported")
	}
	w := &condWaiter{}
	c.waiters = append(c.waiters, w)
	c.L.Unlock()
	t.Park("sync.Cond.Wait", w)
	c.L.Lock()
}

//go:norace
func (c *Cond) Signal() {
	if len(c.waiters) > 0 {
		c.waiters[0].woken = true
		c.waiters = c.waiters[1:]
	}
}

//go:norace
func (c *Cond) Broadcast() {
	for _, w := range c.waiters {
		w.woken = true
	}
	c.waiters = nil
}
