// Package harness holds the simulation scenarios (workload generators,
// reference models, oracles) for the claimed properties, and the worker
// entry point that the check driver runs in sub-processes.
package harness

import (
	"fmt"
	"hash/fnv"
	"runtime/debug"
	"sort"
	"strings"
	"testing"
	"testing/synctest"

	"verif/simrt"
)

// Failure is a property violation found in one run. Class is a stable
// identifier (used to keep the "same violation" while shrinking and to match
// known findings); Detail is for humans and may vary.
type Failure struct {
	Class  string `json:"class"`
	Detail string `json:"detail"`
}

// RunRecord is everything recorded about one simulated run.
type RunRecord struct {
	Prop       string         `json:"prop"`
	Seed       uint64         `json:"seed"`
	Run        uint64         `json:"run"`
	Fail       *Failure       `json:"fail,omitempty"`
	Steps      int            `json:"steps"`
	Decisions  int            `json:"decisions"`
	Switches   int            `json:"switches"`
	Tasks      int            `json:"tasks"`
	Sims       int            `json:"sims"`
	Preempts   int            `json:"preempts"`
	TraceHash  uint64         `json:"trace_hash"`
	CaseHash   uint64         `json:"case_hash"`
	Nontrivial bool           `json:"nontrivial"`
	Dirty      bool           `json:"dirty,omitempty"` // leaked goroutines (deadlock)
	Fired      map[string]int `json:"faults_fired,omitempty"`
	Configured map[string]int `json:"faults_configured,omitempty"`
	Probes     map[string]int `json:"probes,omitempty"`
	Knobs      map[string]int `json:"knobs,omitempty"`
	Notes      []string       `json:"trace,omitempty"`
	Log        []simrt.Event  `json:"schedule,omitempty"`
	Stuck      []simrt.Stuck  `json:"stuck,omitempty"`
	Stacks     string         `json:"stuck_stacks,omitempty"`
	TapeG      []uint32       `json:"tape_g,omitempty"`
	TapeS      []uint32       `json:"tape_s,omitempty"`
}

// RC is the context of one run, handed to the scenario.
type RC struct {
	Tape    *simrt.Tape
	Rec     *RunRecord
	KeepLog bool
	caseH   uint64
	phase   string
	soft    bool
	// set by the scenario to override the default (>=2 scheduling decisions)
	nontrivialSet bool
}

// SetNontrivial overrides the default non-triviality rule for this run.
func (rc *RC) SetNontrivial(v bool) { rc.Rec.Nontrivial = v; rc.nontrivialSet = true }

// Draw takes a generator decision in [0,n).
func (rc *RC) Draw(n int) int { return rc.Tape.G.Draw(n) }

// Range draws in [lo,hi].
func (rc *RC) Range(lo, hi int) int { return lo + rc.Draw(hi-lo+1) }

// Pct is true with probability p% (0 on a zero tape).
func (rc *RC) Pct(p int) bool { return rc.Draw(100) >= 100-p }

// Pick draws an index weighted by w; index 0 is the zero-tape choice.
func (rc *RC) Pick(w ...int) int {
	tot := 0
	for _, x := range w {
		tot += x
	}
	v := rc.Draw(tot)
	for i, x := range w {
		if v < x {
			return i
		}
		v -= x
	}
	return len(w) - 1
}

// FailSoft records a failure that a later Fail of the same run replaces:
// used for mismatches that belong to a known finding, so that the run can go
// on looking for anything else (which then takes precedence).
func (rc *RC) FailSoft(class, format string, args ...any) {
	if rc.Rec.Fail != nil {
		return
	}
	rc.Fail(class, format, args...)
	rc.soft = true
}

// Failed reports a recorded failure that ends the run (not a soft one).
func (rc *RC) Failed() bool { return rc.Rec.Fail != nil && !rc.soft }

// Fail records the first failure of the run.
func (rc *RC) Fail(class, format string, args ...any) {
	if rc.Rec.Fail != nil && !rc.soft {
		return
	}
	rc.soft = false
	d := fmt.Sprintf(format, args...)
	if len(d) > 6000 {
		d = d[:6000] + "…"
	}
	rc.Rec.Fail = &Failure{Class: class, Detail: d}
}

// Notef appends to the decoded trace (kept only when logging).
func (rc *RC) Notef(format string, args ...any) {
	if rc.KeepLog && len(rc.Rec.Notes) < 400 {
		rc.Rec.Notes = append(rc.Rec.Notes, fmt.Sprintf(format, args...))
	}
}

// Case mixes a token into the hash that identifies the generated case.
func (rc *RC) Case(parts ...any) {
	h := fnv.New64a()
	fmt.Fprint(h, rc.caseH, parts)
	rc.caseH = h.Sum64()
	rc.Rec.CaseHash = rc.caseH
}

func (rc *RC) Fired(kind string)      { rc.Rec.Fired[kind]++ }
func (rc *RC) Configured(kind string) { rc.Rec.Configured[kind]++ }
func (rc *RC) Probe(name string)      { rc.Rec.Probes[name]++ }
func (rc *RC) Knob(name string, v int) {
	rc.Rec.Knobs[name] = v
}

// Phase names what the run is doing; a deadlock, livelock or a panic in a
// task other than main is recorded as a failure of class phase+"/deadlock"
// etc. The whole scenario runs as the main task of one simulation, so every
// b6 call - fixtures, operations, observations - is under the scheduler and
// every map iteration order and goroutine interleaving comes from the tape.
func (rc *RC) Phase(prefix string) { rc.phase = prefix }

// Sim runs main with the given phase (kept for readability at call sites
// that start goroutine pipelines).
func (rc *RC) Sim(classPrefix string, main func()) {
	old := rc.phase
	rc.phase = classPrefix
	main()
	rc.phase = old
}

func stuckString(st []simrt.Stuck) string {
	var parts []string
	for _, s := range st {
		p := fmt.Sprintf("[%s %s at %s", s.Task, s.State, s.Site)
		if s.Wait != "" {
			p += " (" + s.Wait + ")"
		}
		parts = append(parts, p+"]")
	}
	sort.Strings(parts)
	return strings.Join(parts, " ")
}

func trimStack(s string) string {
	lines := strings.Split(s, "\n")
	var keep []string
	for i := 0; i < len(lines); i++ {
		if strings.Contains(lines[i], "diagonal.works/b6") || strings.Contains(lines[i], "verif/harness") {
			keep = append(keep, lines[i])
			if i+1 < len(lines) {
				keep = append(keep, lines[i+1])
				i++
			}
		}
		if len(keep) > 24 {
			break
		}
	}
	return strings.Join(keep, "\n")
}

// Guard calls f (b6 code invoked directly by the scenario, outside any
// task); a panic in it is a crash of b6, recorded as a failure of class.
func (rc *RC) Guard(class string, f func()) (ok bool) {
	defer func() {
		if r := recover(); r != nil {
			rc.Fail(class, "panic: %v\n%s", r, trimStack(stackString()))
			ok = false
		}
	}()
	f()
	return true
}

func stackString() string { return string(debug.Stack()) }

// Scenario is the simulation check of one property.
type Scenario struct {
	Prop string
	Run  func(rc *RC)
	// Components for the evidence file.
	Real  []string
	Stubs []string
	// Assumptions specific to the property's oracle.
	Assumptions []string
	// Rule explains what a non-trivial, distinct case is.
	Rule string
	// NontrivialByCase: distinct_nontrivial counts distinct case hashes of
	// non-trivial runs instead of distinct schedule-trace hashes.
	NontrivialByCase bool
	// NeedsRace: the verdict includes the race detector.
	NeedsRace bool
	// Preempt enables R13 preemption points for this scenario.
	Preempt bool
	// MaxSteps overrides the per-run scheduling step budget.
	MaxSteps int
	// Level for the evidence file: "exploration" (default) or "fault_enumeration".
	Level string
}

var scenarios = map[string]*Scenario{}

func register(s *Scenario) { scenarios[s.Prop] = s }

// ExecRun executes one run of sc with the given tape inside a fresh bubble.
func ExecRun(t *testing.T, sc *Scenario, tape *simrt.Tape, seed, run uint64, keepLog bool) *RunRecord {
	rec := &RunRecord{Prop: sc.Prop, Seed: seed, Run: run, Fired: map[string]int{}, Configured: map[string]int{}, Probes: map[string]int{}, Knobs: map[string]int{}}
	rc := &RC{Tape: tape, Rec: rec, KeepLog: keepLog}
	func() {
		defer func() {
			if r := recover(); r != nil {
				msg := fmt.Sprint(r)
				if strings.Contains(msg, "deadlock: main bubble goroutine has exited") {
					// goroutines leaked by a run that was already declared
					// deadlocked; nothing more to say
					if !rec.Dirty {
						rec.Dirty = true
						rc.Fail(sc.Prop+"/leak", "goroutines remained blocked when the run ended: %s", msg)
					}
					return
				}
				panic(r)
			}
		}()
		synctest.Test(t, func(t *testing.T) {
			rc.phase = sc.Prop
			res := simrt.Run(simrt.Config{Tape: tape, KeepLog: keepLog, Preempt: sc.Preempt, MaxSteps: sc.MaxSteps, Knobs: map[string]int{}}, func() {
				sc.Run(rc)
			})
			rec.Sims = 1
			rec.Steps = res.Steps
			rec.Decisions = res.Decisions
			rec.Switches = res.Switches
			rec.Tasks = res.Tasks
			rec.Preempts = res.Preempts
			rec.Knobs["schedule-strategy(0=uniform,1=pct,2=starve-one)"] = res.Strategy
			rec.TraceHash = res.TraceHash
			if !rc.nontrivialSet {
				rec.Nontrivial = res.Decisions >= 2
			}
			for i, n := range res.Probes {
				if n > 0 {
					rec.Probes[simrt.ProbeNames()[i]] += int(n)
				}
			}
			rec.Log = res.Log
			if res.Deadlock || res.Livelock {
				rec.Dirty = true
				rec.Stuck = res.Stuck
				rec.Stacks = res.StuckStacks
			}
			for _, p := range res.Panics {
				if strings.HasSuffix(p.Task, ":main") || p.Task == "main" {
					// scenario code outside rc.Guard: a harness bug
					rec.Fail = nil
					rc.Fail("HARNESS/panic", "panic in the scenario's main task outside rc.Guard: %s\n%s", p.Value, p.Stack)
				} else {
					rc.Fail(rc.phase+"/panic", "task %s panicked (this would kill the process): %s\n%s", p.Task, p.Value, trimStack(p.Stack))
				}
				break
			}
			switch {
			case res.Deadlock:
				rc.Fail(rc.phase+"/deadlock", "no task can run but %d are unfinished: %s", len(res.Stuck), stuckString(res.Stuck))
			case res.Livelock:
				rc.Fail(rc.phase+"/livelock", "step budget exhausted after %d scheduling decisions: %s", res.Steps, stuckString(res.Stuck))
			}
		})
	}()
	rec.TapeG = append([]uint32(nil), tape.G.Rec...)
	rec.TapeS = append([]uint32(nil), tape.S.Rec...)
	return rec
}
