package harness

import (
	"fmt"

	"diagonal.works/b6"
	"diagonal.works/b6/ingest"
)

// op is one generated operation on a mutable world.
type op struct {
	Kind string // add, addtag, removetag
	Spec *fspec // add
	ID   b6.FeatureID
	Key  string
	Val  string
	// Why the generator believes the operation must be rejected ("" if it
	// believes it is valid). Informational: oracles look at what the world
	// returns, never at this.
	Invalid string
}

func (o op) String() string {
	switch o.Kind {
	case "add":
		s := "AddFeature(" + o.Spec.String() + ")"
		if o.Invalid != "" {
			s += " [expected to be rejected: " + o.Invalid + "]"
		}
		return s
	case "addtag":
		return fmt.Sprintf("AddTag(%s, %q=%q)", o.ID, o.Key, o.Val)
	case "removetag":
		return fmt.Sprintf("RemoveTag(%s, %q)", o.ID, o.Key)
	}
	return o.Kind
}

func (o op) apply(w ingest.MutableWorld) error {
	switch o.Kind {
	case "add":
		return w.AddFeature(o.Spec.build())
	case "addtag":
		return w.AddTag(o.ID, b6.Tag{Key: o.Key, Value: b6.NewStringExpression(o.Val)})
	case "removetag":
		return w.RemoveTag(o.ID, o.Key)
	}
	panic("unknown op " + o.Kind)
}

// toChange turns the op into an ingest.Change (for merged changes and the
// service scenarios).
func (o op) toChange() ingest.Change {
	switch o.Kind {
	case "add":
		c := ingest.AddFeatures{o.Spec.build()}
		return &c
	case "addtag":
		return ingest.AddTags{{ID: o.ID, Tag: b6.Tag{Key: o.Key, Value: b6.NewStringExpression(o.Val)}}}
	case "removetag":
		return ingest.RemoveTags{{ID: o.ID, Key: o.Key}}
	}
	panic("unknown op " + o.Kind)
}

// commit records a successful operation in the generator's belief.
func (g *cityGen) commit(o op) {
	switch o.Kind {
	case "add":
		g.specs[o.Spec.ID] = o.Spec.clone()
	case "addtag":
		if s := g.specs[o.ID]; s != nil {
			for i := range s.Tags {
				if s.Tags[i].K == o.Key {
					s.Tags[i].V = o.Val
					return
				}
			}
			s.Tags = append(s.Tags, tagKV{o.Key, o.Val})
		}
	case "removetag":
		if s := g.specs[o.ID]; s != nil {
			for i := range s.Tags {
				if s.Tags[i].K == o.Key {
					s.Tags = append(s.Tags[:i:i], s.Tags[i+1:]...)
					return
				}
			}
		}
	}
}

type opMix struct {
	tagOnly     bool // only AddTag / RemoveTag
	noInvalid   bool // never generate operations believed invalid
	invalidPct  int  // chance that an add is an invalid one
	cycles      bool // relations may refer to relations (cycles)
	richTypes   bool // relations and collections
	geometryPct int  // share of feature additions vs tag edits (0 = default 50)
}

func (g *cityGen) freeID(t b6.FeatureType) (b6.FeatureID, bool) {
	var max int
	var mk func(int) b6.FeatureID
	switch t {
	case b6.FeatureTypePoint:
		for _, i := range []int{maxPoints + 2, maxPoints + 3} {
			if g.specs[pointID(i)] == nil {
				return pointID(i), true
			}
		}
		return b6.FeatureID{}, false
	case b6.FeatureTypePath:
		max, mk = maxPaths, pathID
	case b6.FeatureTypeArea:
		max, mk = maxAreas, areaID
	case b6.FeatureTypeRelation:
		max, mk = maxRels, relID
	case b6.FeatureTypeCollection:
		max, mk = maxCols, colID
	}
	for i := 0; i < max; i++ {
		if g.specs[mk(i)] == nil {
			return mk(i), true
		}
	}
	return b6.FeatureID{}, false
}

// twinRingOps returns three additions that build an area over a ring that is
// closed by position only: a new point at exactly the position of an
// existing grid point, a path from that grid point round a rectangle to the
// new point, and an area over the path. b6 calls such a path open (its ends
// are different points) but lets an area stand on it (its ends coincide).
// With cw the ring runs clockwise and the area must be refused.
func (g *cityGen) twinRingOps(cw bool) []op {
	twin, ok1 := g.freeID(b6.FeatureTypePoint)
	pid, ok2 := g.freeID(b6.FeatureTypePath)
	aid, ok3 := g.freeID(b6.FeatureTypeArea)
	c := g.randRect()
	first := g.specs[pointID(c[0])]
	if !ok1 || !ok2 || !ok3 || first == nil {
		return nil
	}
	for _, i := range c {
		if g.specs[pointID(i)] == nil {
			return nil
		}
	}
	order := []int{c[0], c[1], c[2], c[3]}
	why := ""
	if cw {
		order = []int{c[0], c[3], c[2], c[1]}
		why = "area over a clockwise ring that is closed by a second point at its first vertex's position"
	}
	path := &fspec{ID: pid}
	for _, i := range order {
		path.Path = append(path.Path, pathMember{Point: i})
	}
	path.Path = append(path.Path, pathMember{Point: int(twin.Value) - 1})
	return []op{
		{Kind: "add", Spec: &fspec{ID: twin, Lat: first.Lat, Lng: first.Lng}},
		{Kind: "add", Spec: path},
		{Kind: "add", Spec: &fspec{ID: aid, AreaPaths: [][]b6.FeatureID{{pid}}, AreaRings: [][]int{nil}}, Invalid: why},
	}
}

// twinRingEnds returns the two end points (first vertex and its twin) of every
// ring under an area that is closed by position only.
func (g *cityGen) twinRingEnds() []b6.FeatureID {
	var out []b6.FeatureID
	for _, pid := range g.pathsUsedByAreas() {
		p := g.specs[pid].Path
		if len(p) < 4 || p[0].Point < 0 || p[len(p)-1].Point < 0 || p[0].Point == p[len(p)-1].Point {
			continue
		}
		a, b := g.specs[pointID(p[0].Point)], g.specs[pointID(p[len(p)-1].Point)]
		if a != nil && b != nil && a.Lat == b.Lat && a.Lng == b.Lng {
			out = append(out, a.ID, b.ID)
		}
	}
	return out
}

// pathsUsedByAreas returns closed paths that some area refers to.
func (g *cityGen) pathsUsedByAreas() []b6.FeatureID {
	seen := map[b6.FeatureID]bool{}
	var out []b6.FeatureID
	for _, aid := range g.sortedIDs(b6.FeatureTypeArea) {
		for _, ps := range g.specs[aid].AreaPaths {
			for _, p := range ps {
				if !seen[p] && g.specs[p] != nil {
					seen[p] = true
					out = append(out, p)
				}
			}
		}
	}
	return out
}

// genOp draws one operation.
func (g *cityGen) genOp(mix opMix) op {
	rc := g.rc
	geo := mix.geometryPct
	if geo == 0 {
		geo = 50
	}
	if mix.tagOnly || !rc.Pct(geo) {
		return g.genTagOp()
	}
	invalid := !mix.noInvalid && rc.Pct(mix.invalidPct)
	if invalid {
		return g.genInvalidAdd()
	}
	return g.genValidAdd(mix)
}

func (g *cityGen) genTagOp() op {
	rc := g.rc
	var id b6.FeatureID
	if x, ok := g.anyExistingID(); ok && !rc.Pct(4) {
		id = x
		// bias towards features that others stand on (rings under areas and
		// their corner points): a searchable tag edit copies such a feature
		// alone into an overlay, which is where copy-up bookkeeping matters
		if used := g.pathsUsedByAreas(); len(used) > 0 && rc.Pct(30) {
			id = used[rc.Draw(len(used))]
			if ring := g.specs[id]; ring != nil && len(ring.Path) > 0 && rc.Pct(40) {
				if m := ring.Path[rc.Draw(len(ring.Path))]; m.Point >= 0 && g.specs[pointID(m.Point)] != nil {
					id = pointID(m.Point)
				}
			}
		}
	} else {
		id = pointID(maxPoints) // never exists
	}
	if rc.Pct(30) {
		// remove: prefer a key the feature has
		if s := g.specs[id]; s != nil && len(s.Tags) > 0 && !rc.Pct(25) {
			return op{Kind: "removetag", ID: id, Key: s.Tags[rc.Draw(len(s.Tags))].K}
		}
		return op{Kind: "removetag", ID: id, Key: g.tagKey(false, false)}
	}
	k := g.tagKey(false, false)
	if s := g.specs[id]; s != nil && len(s.Tags) > 0 && rc.Pct(35) {
		k = s.Tags[rc.Draw(len(s.Tags))].K // overwrite
	}
	return op{Kind: "addtag", ID: id, Key: k, Val: g.tagValue(k)}
}

func (g *cityGen) genValidAdd(mix opMix) op {
	rc := g.rc
	kinds := []int{3, 4, 2, 0, 0}
	if mix.richTypes {
		kinds = []int{3, 4, 2, 2, 2}
	}
	switch rc.Pick(kinds...) {
	case 0: // point: new, or moved slightly
		if id, ok := g.freeID(b6.FeatureTypePoint); ok && rc.Pct(40) {
			i := int(id.Value) - 1
			s := g.pointSpec(i%maxPoints, 1)
			s.ID = id
			s.Lat += 900
			s.Tags = g.someTags(2)
			return op{Kind: "add", Spec: s}
		}
		ids := g.sortedIDs(b6.FeatureTypePoint)
		old := g.specs[ids[rc.Draw(len(ids))]]
		s := old.clone()
		s.Lat += int32(rc.Range(1, 60))
		s.Lng += int32(rc.Range(1, 60))
		if idx := int(old.ID.Value) - 1; mix.invalidPct > 0 && idx < maxPoints && rc.Pct(25) {
			// back to exactly where the base city had it (whether that is
			// still a valid place depends on what moved meanwhile: the
			// world decides, the oracles only look at the outcome)
			if lat, lng := gridE7(idx, 0); lat != old.Lat || lng != old.Lng {
				s.Lat, s.Lng = lat, lng
			}
		}
		if rc.Pct(50) {
			s.Tags = g.someTags(2)
		}
		return op{Kind: "add", Spec: s}
	case 1: // path: new or replacement
		var id b6.FeatureID
		ids := g.sortedIDs(b6.FeatureTypePath)
		if f, ok := g.freeID(b6.FeatureTypePath); ok && (len(ids) == 0 || rc.Pct(50)) {
			id = f
		} else {
			id = ids[rc.Draw(len(ids))]
		}
		var s *fspec
		used := false
		for _, p := range g.pathsUsedByAreas() {
			if p == id {
				used = true
			}
		}
		if used || rc.Pct(45) {
			s = g.closedRing(id) // keeps areas over it valid
		} else {
			s = g.openPath(id)
		}
		s.Tags = g.someTags(3)
		return op{Kind: "add", Spec: s}
	case 2: // area
		var id b6.FeatureID
		ids := g.sortedIDs(b6.FeatureTypeArea)
		if f, ok := g.freeID(b6.FeatureTypeArea); ok && (len(ids) == 0 || rc.Pct(50)) {
			id = f
		} else {
			id = ids[rc.Draw(len(ids))]
		}
		s := g.areaSpec(id)
		s.Tags = g.someTags(3)
		return op{Kind: "add", Spec: s}
	case 3: // relation
		var id b6.FeatureID
		ids := g.sortedIDs(b6.FeatureTypeRelation)
		if f, ok := g.freeID(b6.FeatureTypeRelation); ok && (len(ids) == 0 || rc.Pct(50)) {
			id = f
		} else {
			id = ids[rc.Draw(len(ids))]
		}
		s := g.relationSpec(id, mix.cycles)
		if old := g.specs[id]; old != nil && rc.Pct(45) {
			// an incremental edit of an existing relation: drop one member,
			// or gain one that another relation already has (referrer lists
			// shared between relations, shrinking step by step)
			s = old.clone()
			if len(s.Members) > 0 && rc.Pct(60) {
				k := rc.Draw(len(s.Members))
				s.Members = append(s.Members[:k:k], s.Members[k+1:]...)
			} else {
				others := g.sortedIDs(b6.FeatureTypeRelation)
				if o := g.specs[others[rc.Draw(len(others))]]; o != nil && len(o.Members) > 0 {
					m := o.Members[rc.Draw(len(o.Members))]
					if mix.cycles || m.ID.Type != b6.FeatureTypeRelation {
						s.Members = append(s.Members, m)
					}
				}
			}
			if rc.Pct(50) {
				return op{Kind: "add", Spec: s}
			}
		}
		s.Tags = g.someTags(2)
		return op{Kind: "add", Spec: s}
	default: // collection
		var id b6.FeatureID
		ids := g.sortedIDs(b6.FeatureTypeCollection)
		if f, ok := g.freeID(b6.FeatureTypeCollection); ok && (len(ids) == 0 || rc.Pct(50)) {
			id = f
		} else {
			id = ids[rc.Draw(len(ids))]
		}
		s := g.collectionSpec(id)
		s.Tags = g.someTags(2)
		return op{Kind: "add", Spec: s}
	}
}

// genInvalidAdd draws an addition that validation must refuse, generated
// from the current belief so that it lands inside real structure: an invalid
// path; a replacement of a ring that an area depends on by something an
// area cannot stand on; a point move that breaks a ring through it; an area
// over a missing or open path.
func (g *cityGen) genInvalidAdd() op {
	rc := g.rc
	used := g.pathsUsedByAreas()
	switch rc.Pick(3, 4, 3, 3) {
	case 0:
		id, ok := g.freeID(b6.FeatureTypePath)
		if !ok || rc.Pct(40) {
			if ids := g.sortedIDs(b6.FeatureTypePath); len(ids) > 0 {
				id = ids[rc.Draw(len(ids))]
			}
		}
		s, why := g.invalidPath(id)
		s.Tags = g.someTags(2)
		return op{Kind: "add", Spec: s, Invalid: why}
	case 1:
		if len(used) > 0 {
			id := used[rc.Draw(len(used))]
			old := g.specs[id]
			s := old.clone()
			why := ""
			switch rc.Draw(4) {
			case 0: // opened: drop the closing point
				s.Path = s.Path[:len(s.Path)-1]
				why = "ring under an area opened"
			case 1: // shortened to two points (still closed by repeating one point)
				s.Path = []pathMember{s.Path[0], s.Path[0]}
				why = "ring under an area shortened to two points"
			case 2: // reversed: clockwise
				for i, j := 0, len(s.Path)-1; i < j; i, j = i+1, j-1 {
					s.Path[i], s.Path[j] = s.Path[j], s.Path[i]
				}
				why = "ring under an area reversed (clockwise)"
			default:
				s.Path[1] = pathMember{Point: maxPoints + rc.Draw(2)}
				why = "ring under an area given a missing point"
			}
			s.Tags = g.someTags(2)
			return op{Kind: "add", Spec: s, Invalid: why}
		}
		fallthrough
	case 2:
		// move a corner of some ring far across so the ring self-intersects or turns clockwise
		rings := g.closedPathIDs()
		if len(rings) > 0 {
			ring := g.specs[rings[rc.Draw(len(rings))]]
			corner := ring.Path[rc.Draw(len(ring.Path)-1)].Point
			opposite := ring.Path[(rc.Draw(len(ring.Path)-1)+2)%(len(ring.Path)-1)].Point
			if old := g.specs[pointID(corner)]; old != nil && corner != opposite {
				s := old.clone()
				if first := g.specs[pointID(ring.Path[0].Point)]; first != nil && corner != ring.Path[0].Point && rc.Pct(30) {
					// exactly onto the ring's first vertex: a degenerate edge
					s.Lat, s.Lng = first.Lat, first.Lng
					return op{Kind: "add", Spec: s, Invalid: "point moved exactly onto the first vertex of a ring through it"}
				}
				olat, olng := gridE7(opposite, 0)
				clat, clng := gridE7(corner, 0)
				s.Lat = olat + (olat-clat)/2 + 333
				s.Lng = olng + (olng-clng)/2 + 444
				return op{Kind: "add", Spec: s, Invalid: "point moved so that a ring through it becomes invalid"}
			}
		}
		fallthrough
	default:
		id, ok := g.freeID(b6.FeatureTypeArea)
		if !ok || rc.Pct(40) {
			if ids := g.sortedIDs(b6.FeatureTypeArea); len(ids) > 0 {
				id = ids[rc.Draw(len(ids))]
			} else if !ok {
				id = areaID(0)
			}
		}
		s := &fspec{ID: id, AreaRings: [][]int{nil}}
		why := "area over a missing path"
		target := pathID(maxPaths - 1)
		if g.specs[target] != nil {
			target = b6.FeatureID{Type: b6.FeatureTypePath, Namespace: nsB, Value: 999}
		}
		for _, pid := range g.sortedIDs(b6.FeatureTypePath) {
			ps := g.specs[pid]
			if n := len(ps.Path); rc.Pct(50) && !(ps.Path[0] == ps.Path[n-1]) {
				target, why = pid, "area over an open path"
				break
			}
		}
		s.AreaPaths = [][]b6.FeatureID{{target}}
		s.Tags = g.someTags(2)
		return op{Kind: "add", Spec: s, Invalid: why}
	}
}

// ---------------------------------------------------------------- world makers

const (
	wkBasicMutable = iota
	wkOverlayOverBasic
	wkOverlayWithSnapshot // overlay, some edits, Snapshot(), more edits
	wkCount               // kinds every history scenario uses
	// further kinds, used where the scenario's oracle does not depend on the
	// base's own reference queries
	wkOverlayOverStaticOverlay = 3
	wkOverlayOverFrozenOverlay = 4
	wkOverlayOverCompact       = 5
	wkCountAll                 = 6
)

var worldKindNames = []string{"BasicMutableWorld", "MutableOverlayWorld(basic base)", "MutableOverlayWorld(after Snapshot)", "MutableOverlayWorld(OverlayWorld base)", "MutableOverlayWorld(MutableOverlayWorld base)", "MutableOverlayWorld(compact base)"}

// makeMutableWorld builds a mutable world holding the base city. For the
// overlay kinds the base city lives in an immutable basic world underneath.
// It is fixture code (simulator inactive).
func makeMutableWorld(rc *RC, g *cityGen, kind int, base []*fspec) (ingest.MutableWorld, error) {
	switch kind {
	case wkBasicMutable:
		w := ingest.NewBasicMutableWorld()
		for _, s := range base {
			if err := w.AddFeature(s.build()); err != nil {
				return nil, fmt.Errorf("fixture AddFeature(%s): %v", s, err)
			}
		}
		return w, nil
	case wkOverlayOverBasic, wkOverlayWithSnapshot:
		b, err := newBasicWorld(base)
		if err != nil {
			return nil, fmt.Errorf("fixture basic world: %v", err)
		}
		return ingest.NewMutableOverlayWorld(b), nil
	case wkOverlayOverStaticOverlay, wkOverlayOverFrozenOverlay, wkOverlayOverCompact:
		b, err := newBaseWorld(map[int]int{wkOverlayOverStaticOverlay: bkStaticOverlay, wkOverlayOverFrozenOverlay: bkFrozenOverlay, wkOverlayOverCompact: bkCompact}[kind], base)
		if err != nil {
			return nil, fmt.Errorf("fixture base world: %v", err)
		}
		return ingest.NewMutableOverlayWorld(b), nil
	}
	panic("unknown world kind")
}
