package harness

import (
	"fmt"
	"hash/fnv"
	"sort"
	"strings"

	"diagonal.works/b6"
	"github.com/golang/geo/s2"
)

// Obs is a canonical, order-normalised dump of what a world answers, split
// into named sections ("has", "feat", "tags", "loc", "find", "refs", "rels",
// "cols", "areas", "trav", "each", "tokens") so that each property compares
// only what its statement names. Keys are "<section>/<what>".
type Obs map[string]string

type obsOpts struct {
	sections   map[string]bool // nil = all
	goroutines int             // for EachFeature
}

var allSections = []string{"has", "feat", "tags", "loc", "find", "refs", "rels", "cols", "areas", "trav", "each", "tokens"}

func secs(names ...string) map[string]bool {
	m := map[string]bool{}
	for _, n := range names {
		m[n] = true
	}
	return m
}

func safe(f func() string) (out string) {
	defer func() {
		if r := recover(); r != nil {
			msg := fmt.Sprint(r)
			if len(msg) > 200 {
				msg = msg[:200]
			}
			out = "PANIC: " + msg
		}
	}()
	return f()
}

func e7(ll s2.LatLng) string {
	return fmt.Sprintf("%d,%d", int64(ll.Lat.Degrees()*1e7+copysignHalf(ll.Lat.Degrees())), int64(ll.Lng.Degrees()*1e7+copysignHalf(ll.Lng.Degrees())))
}

func copysignHalf(x float64) float64 {
	if x < 0 {
		return -0.5
	}
	return 0.5
}

func pointE7(p s2.Point) string {
	if p.Norm() == 0 {
		return "zero"
	}
	return e7(s2.LatLngFromPoint(p))
}

// tagsString renders tags as a key-sorted map of key -> value string; the
// geometry-bearing "point"/"path" tags are rendered separately (dumpFeature).
func tagsString(t b6.Taggable) string {
	tags := t.AllTags()
	m := map[string]string{}
	dup := 0
	for _, tag := range tags {
		if tag.Key == b6.PointTag || tag.Key == b6.PathTag {
			continue
		}
		if _, ok := m[tag.Key]; ok {
			dup++
		}
		m[tag.Key] = tag.Value.String()
	}
	keys := make([]string, 0, len(m))
	for k := range m {
		keys = append(keys, k)
	}
	sort.Strings(keys)
	var b strings.Builder
	for _, k := range keys {
		fmt.Fprintf(&b, "%q=%q;", k, m[k])
		// Get must agree with AllTags
		if g := t.Get(k); !g.IsValid() || g.Value.String() != m[k] {
			fmt.Fprintf(&b, "GET-DISAGREES(%q -> valid=%v %q);", k, g.IsValid(), g.Value.String())
		}
	}
	if dup > 0 {
		fmt.Fprintf(&b, "DUPLICATE-KEYS=%d;", dup)
	}
	return b.String()
}

func dumpGeometry(f b6.Feature) string {
	var b strings.Builder
	switch f.FeatureID().Type {
	case b6.FeatureTypePoint:
		if p, ok := f.(b6.PhysicalFeature); ok {
			fmt.Fprintf(&b, "point=%s", pointE7(p.Point()))
		} else {
			fmt.Fprintf(&b, "NOT-PHYSICAL(%T)", f)
		}
	case b6.FeatureTypePath:
		if p, ok := f.(b6.PhysicalFeature); ok {
			n := p.GeometryLen()
			fmt.Fprintf(&b, "path(%d)=", n)
			for i := 0; i < n; i++ {
				b.WriteString(safe(func() string { return pointE7(p.PointAt(i)) }))
				b.WriteString(" ")
			}
			b.WriteString("refs=")
			for _, r := range f.References() {
				fmt.Fprintf(&b, "%s ", r.Source())
			}
			// the cached polyline must agree with the points
			b.WriteString(safe(func() string {
				pl := p.Polyline()
				if pl == nil {
					return " polyline=nil"
				}
				var pb strings.Builder
				fmt.Fprintf(&pb, " polyline(%d)=", len(*pl))
				for _, pt := range *pl {
					pb.WriteString(pointE7(pt))
					pb.WriteString(" ")
				}
				return pb.String()
			}))
		} else {
			fmt.Fprintf(&b, "NOT-PHYSICAL(%T)", f)
		}
	case b6.FeatureTypeArea:
		if a, ok := f.(b6.AreaFeature); ok {
			n := a.Len()
			fmt.Fprintf(&b, "area(%d)=", n)
			for i := 0; i < n; i++ {
				b.WriteString(safe(func() string {
					var pb strings.Builder
					// (nil and empty both mean "this polygon is not built from paths")
					if paths := a.Feature(i); len(paths) > 0 {
						pb.WriteString("paths[")
						for _, p := range paths {
							if p == nil {
								pb.WriteString("nil ")
							} else {
								fmt.Fprintf(&pb, "%s ", p.FeatureID())
							}
						}
						pb.WriteString("]")
					}
					poly := a.Polygon(i)
					if poly == nil {
						pb.WriteString("polygon=nil")
					} else {
						pb.WriteString("polygon=")
						for l := 0; l < poly.NumLoops(); l++ {
							pb.WriteString("(")
							for _, v := range poly.Loop(l).Vertices() {
								pb.WriteString(pointE7(v))
								pb.WriteString(" ")
							}
							pb.WriteString(")")
						}
					}
					return pb.String()
				}))
				b.WriteString("; ")
			}
		} else {
			fmt.Fprintf(&b, "NOT-AREA(%T)", f)
		}
	case b6.FeatureTypeRelation:
		if r, ok := f.(b6.RelationFeature); ok {
			fmt.Fprintf(&b, "relation(%d)=", r.Len())
			for i := 0; i < r.Len(); i++ {
				m := r.Member(i)
				fmt.Fprintf(&b, "%s:%q ", m.ID, m.Role)
			}
		} else {
			fmt.Fprintf(&b, "NOT-RELATION(%T)", f)
		}
	case b6.FeatureTypeCollection:
		if c, ok := f.(b6.CollectionFeature); ok {
			b.WriteString("collection=")
			var keys []any
			it := c.BeginUntyped()
			for n := 0; n < 64; n++ {
				ok, err := it.Next()
				if err != nil {
					fmt.Fprintf(&b, "ERR(%v)", err)
					break
				}
				if !ok {
					break
				}
				fmt.Fprintf(&b, "%v=%v ", it.Key(), it.Value())
				keys = append(keys, it.Key())
			}
			// lookups by key: every key the collection iterates over must be found
			for _, k := range keys {
				v, ok := c.FindValue(k)
				fmt.Fprintf(&b, "find(%v)=%v,%v ", k, v, ok)
			}
		} else {
			fmt.Fprintf(&b, "NOT-COLLECTION(%T)", f)
		}
	}
	return b.String()
}

// obsQueries is the fixed query list of the "find" section.
func obsQueries() []b6.Query {
	str := b6.NewStringExpression
	return []b6.Query{
		b6.All{},
		b6.Keyed{Key: "#amenity"},
		b6.Keyed{Key: "#building"},
		b6.Keyed{Key: "#highway"},
		b6.Keyed{Key: "@flag"},
		b6.Tagged{Key: "#amenity", Value: str("cafe")},
		b6.Tagged{Key: "#building", Value: str("yes")},
		b6.Tagged{Key: "#highway", Value: str("path")},
		b6.Tagged{Key: "#amenity", Value: str("7")},
		b6.Typed{Type: b6.FeatureTypePoint, Query: b6.All{}},
		b6.Typed{Type: b6.FeatureTypePath, Query: b6.All{}},
		b6.Typed{Type: b6.FeatureTypeArea, Query: b6.All{}},
		b6.Typed{Type: b6.FeatureTypeRelation, Query: b6.All{}},
		b6.Typed{Type: b6.FeatureTypePath, Query: b6.Keyed{Key: "#highway"}},
		b6.Intersection{b6.Keyed{Key: "#amenity"}, b6.Keyed{Key: "#building"}},
		b6.Union{b6.Tagged{Key: "#amenity", Value: str("cafe")}, b6.Keyed{Key: "@flag"}},
	}
}

func idList(it interface {
	Next() bool
	FeatureID() b6.FeatureID
}) string {
	var b strings.Builder
	for n := 0; it.Next() && n < 500; n++ {
		b.WriteString(it.FeatureID().String())
		b.WriteString(" ")
	}
	return b.String()
}

// idSet renders the ids an iterator yields as a sorted set with a duplicate counter.
func idSet(next func() (b6.FeatureID, bool)) string {
	seen := map[b6.FeatureID]int{}
	for n := 0; n < 500; n++ {
		id, ok := next()
		if !ok {
			break
		}
		seen[id]++
	}
	ids := make([]b6.FeatureID, 0, len(seen))
	dup := 0
	for id, c := range seen {
		ids = append(ids, id)
		dup += c - 1
	}
	sort.Slice(ids, func(i, j int) bool { return ids[i].Less(ids[j]) })
	var b strings.Builder
	for _, id := range ids {
		b.WriteString(id.String())
		b.WriteString(" ")
	}
	if dup > 0 {
		fmt.Fprintf(&b, "DUPLICATES=%d", dup)
	}
	return b.String()
}

func featuresSet(fs b6.Features) string {
	return idSet(func() (b6.FeatureID, bool) {
		if fs.Next() {
			return fs.FeatureID(), true
		}
		return b6.FeatureID{}, false
	})
}

// Observe dumps w. It never panics: a panic inside a query becomes the
// observed value of that query.
func Observe(w b6.World, ids []b6.FeatureID, o obsOpts) Obs {
	out := Obs{}
	want := func(s string) bool { return o.sections == nil || o.sections[s] }
	for _, id := range ids {
		key := id.String()
		if want("has") {
			out["has/"+key] = safe(func() string { return fmt.Sprint(w.HasFeatureWithID(id)) })
		}
		if want("feat") || want("tags") {
			var f b6.Feature
			found := safe(func() string {
				f = w.FindFeatureByID(id)
				if f == nil {
					return "nil"
				}
				if f.FeatureID() != id {
					return "WRONG-ID " + f.FeatureID().String()
				}
				return "ok"
			})
			if found != "ok" {
				if want("feat") {
					out["feat/"+key] = found
				}
				if want("tags") {
					out["tags/"+key] = found
				}
			} else {
				if want("tags") {
					out["tags/"+key] = safe(func() string { return tagsString(f) })
				}
				if want("feat") {
					out["feat/"+key] = safe(func() string { return dumpGeometry(f) })
				}
			}
		}
		if want("loc") && id.Type == b6.FeatureTypePoint {
			out["loc/"+key] = safe(func() string {
				ll, err := w.FindLocationByID(id)
				if err != nil {
					return "err"
				}
				return e7(ll)
			})
		}
		if want("refs") {
			out["refs/"+key] = safe(func() string { return featuresSet(w.FindReferences(id)) })
			out["refs-paths/"+key] = safe(func() string { return featuresSet(w.FindReferences(id, b6.FeatureTypePath)) })
		}
		if want("rels") {
			out["rels/"+key] = safe(func() string {
				it := w.FindRelationsByFeature(id)
				return idSet(func() (b6.FeatureID, bool) {
					if it.Next() {
						return it.FeatureID(), true
					}
					return b6.FeatureID{}, false
				})
			})
		}
		if want("cols") {
			out["cols/"+key] = safe(func() string {
				it := w.FindCollectionsByFeature(id)
				return idSet(func() (b6.FeatureID, bool) {
					if it.Next() {
						return it.FeatureID(), true
					}
					return b6.FeatureID{}, false
				})
			})
		}
		if want("areas") && id.Type == b6.FeatureTypePoint {
			out["areas/"+key] = safe(func() string {
				it := w.FindAreasByPoint(id)
				return idSet(func() (b6.FeatureID, bool) {
					if it.Next() {
						return it.FeatureID(), true
					}
					return b6.FeatureID{}, false
				})
			})
		}
		if want("trav") && id.Type == b6.FeatureTypePoint {
			out["trav/"+key] = safe(func() string {
				ss := w.Traverse(id)
				var parts []string
				for n := 0; ss.Next() && n < 200; n++ {
					s := ss.Segment()
					parts = append(parts, fmt.Sprintf("%s[%d-%d]", s.Feature.FeatureID(), s.First, s.Last))
				}
				sort.Strings(parts)
				return strings.Join(parts, " ")
			})
		}
	}
	if want("find") {
		for _, q := range obsQueries() {
			out["find/"+q.String()] = safe(func() string {
				fs := w.FindFeatures(q)
				var b strings.Builder
				h := fnv.New64a()
				for n := 0; fs.Next() && n < 500; n++ {
					id := fs.FeatureID()
					b.WriteString(id.String())
					// the feature handed out by the search is part of the answer:
					// its tags and geometry are folded into a digest
					if f := fs.Feature(); f == nil {
						b.WriteString("(nil)")
					} else if f.FeatureID() != id {
						b.WriteString("(feature id differs)")
					} else {
						h.Write([]byte(safe(func() string { return tagsString(f) + "|" + dumpGeometry(f) })))
						h.Write([]byte{0})
					}
					b.WriteString(" ")
				}
				fmt.Fprintf(&b, "content=%x", h.Sum64())
				return b.String()
			})
		}
	}
	if want("each") {
		out["each"] = safe(func() string { return eachDump(w, o.goroutines) })
	}
	if want("tokens") {
		out["tokens"] = safe(func() string {
			t := append([]string(nil), w.Tokens()...)
			sort.Strings(t)
			return strings.Join(t, " ")
		})
	}
	return out
}

// eachDump enumerates the world and renders id -> tags plus a duplicate
// counter. The callback may run on several goroutines (simulated tasks): it
// only touches its own slot of a per-goroutine slice.
func eachDump(w b6.World, goroutines int) string {
	if goroutines < 1 {
		goroutines = 1
	}
	per := make([][]string, goroutines+1)
	err := w.EachFeature(func(f b6.Feature, g int) error {
		if g < 0 || g > goroutines {
			g = goroutines
		}
		per[g] = append(per[g], f.FeatureID().String()+" "+tagsString(f)+" "+dumpGeometry(f))
		return nil
	}, &b6.EachFeatureOptions{Goroutines: goroutines})
	var all []string
	for _, p := range per {
		all = append(all, p...)
	}
	sort.Strings(all)
	dup := 0
	for i := 1; i < len(all); i++ {
		if strings.SplitN(all[i], " ", 2)[0] == strings.SplitN(all[i-1], " ", 2)[0] {
			dup++
		}
	}
	s := strings.Join(all, "\n")
	if dup > 0 {
		s += fmt.Sprintf("\nDUPLICATE-IDS=%d", dup)
	}
	if err != nil {
		s += "\nERR=" + err.Error()
	}
	return s
}

// sectionPriority orders sections from most specific (closest to a root
// cause) to most derived; Diff sorts differing keys by it so that the first
// key, which names the violation class, is the most informative one.
var sectionPriority = map[string]int{"has": 0, "tags": 1, "feat": 2, "loc": 3, "refs": 4, "refs-paths": 4, "rels": 5, "cols": 6, "areas": 7, "find": 8, "eachtags": 9, "each": 10, "trav": 11, "tokens": 12}

// Diff returns the keys whose values differ (by section priority, then
// name), limited to max.
func (a Obs) Diff(b Obs, max int) []string {
	var keys []string
	for k, v := range a {
		if bv, ok := b[k]; !ok || bv != v {
			keys = append(keys, k)
		}
	}
	for k := range b {
		if _, ok := a[k]; !ok {
			keys = append(keys, k)
		}
	}
	sort.Slice(keys, func(i, j int) bool {
		pi, pj := sectionPriority[section(keys[i])], sectionPriority[section(keys[j])]
		if pi != pj {
			return pi < pj
		}
		return keys[i] < keys[j]
	})
	if len(keys) > max {
		keys = keys[:max]
	}
	return keys
}

// Without returns a copy of the observation without the given sections.
func (a Obs) Without(sections ...string) Obs {
	out := Obs{}
	for k, v := range a {
		skip := false
		for _, s := range sections {
			if section(k) == s {
				skip = true
			}
		}
		if !skip {
			out[k] = v
		}
	}
	return out
}

// DiffString renders the first differences for a failure detail.
func (a Obs) DiffString(b Obs, labelA, labelB string) string {
	keys := a.Diff(b, 6)
	var sb strings.Builder
	all := a.Diff(b, 40)
	fmt.Fprintf(&sb, "differing keys: %s\n", strings.Join(all, ", "))
	for _, k := range keys {
		fmt.Fprintf(&sb, "%s:\n  %s: %s\n  %s: %s\n", k, labelA, clipS(a[k], 700), labelB, clipS(b[k], 700))
	}
	return sb.String()
}

func clipS(s string, n int) string {
	if len(s) > n {
		return s[:n] + "…"
	}
	return s
}

// section returns the section name of an Obs key.
func section(key string) string {
	if i := strings.IndexByte(key, '/'); i >= 0 {
		return key[:i]
	}
	return key
}
