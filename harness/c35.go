package harness

import (
	"fmt"
	"sort"
	"strings"

	"diagonal.works/b6"
	"diagonal.works/b6/ingest"
	"diagonal.works/b6/ingest/compact"
	"verif/simrt"
	"verif/simrt/ssync"
)

// C35: concurrent readers and parallel builders are race-free, and every
// concurrent query returns what it would return alone.

func init() {
	register(&Scenario{
		Prop:      "C35",
		Run:       runC35,
		Preempt:   true,
		NeedsRace: true,
		Real: []string{
			"basic world, MutableOverlayWorld (no writers) and compact world (FeaturesByID LRU cache with the cache-size knob 1-8 so that eviction and re-decoding happen; wrapped feature polyline/polygon caches) queried by 2-4 concurrent reader tasks: lookups, tag and typed searches, reference queries, Traverse, geometry accessors, EachFeature with goroutines",
			"ingest.NewWorldFromSource, ingest.NewMutableWorldFromSource and compact.BuildInMemory with several goroutines, under the race detector",
		},
		Stubs: []string{"none; expected answers come from the same queries run alone on an identically built twin world"},
		Assumptions: []string{
			"the race verdict is the Go race detector's on one serialised interleaving per tape (DESIGN.md §3.4): no false positives, false negatives possible (bounded shadow history)",
			"R13 preemption points in ingest/compact/world.go, ingest/features.go, ingest/basic.go, ingest/overlay.go, ingest/mutable.go put context switches inside regions that are only atomic because of a lock",
		},
		Rule: "one case = (world kind, cache size, 2-4 readers x 3-10 queries | builder, goroutines) under one schedule incl. preemptions; non-trivial = >=2 scheduling decisions with >=2 runnable tasks; distinct = distinct hash of the schedule trace",
	})
}

type c35Query struct {
	kind string
	id   b6.FeatureID
	q    int
	g    int
}

func (q c35Query) String() string {
	switch q.kind {
	case "find":
		return "find " + obsQueries()[q.q].String()
	case "each":
		return fmt.Sprintf("EachFeature(goroutines=%d)", q.g)
	}
	return q.kind + " " + q.id.String()
}

func (q c35Query) run(w b6.World) string {
	var o Obs
	switch q.kind {
	case "feature":
		o = Observe(w, []b6.FeatureID{q.id}, obsOpts{sections: secs("has", "tags", "feat", "loc")})
	case "refs":
		o = Observe(w, []b6.FeatureID{q.id}, obsOpts{sections: secs("refs", "rels", "cols", "areas")})
	case "trav":
		o = Observe(w, []b6.FeatureID{q.id}, obsOpts{sections: secs("trav")})
	case "find":
		o = Obs{}
		query := obsQueries()[q.q]
		o["find"] = safe(func() string {
			fs := w.FindFeatures(query)
			var b strings.Builder
			for n := 0; fs.Next() && n < 500; n++ {
				f := fs.Feature()
				b.WriteString(fs.FeatureID().String())
				if f != nil {
					b.WriteString("{" + tagsString(f) + "|" + dumpGeometry(f) + "}")
				}
				b.WriteString(" ")
			}
			return b.String()
		})
	case "each":
		o = Obs{"each": safe(func() string { return eachDump(w, q.g) })}
	}
	keys := make([]string, 0, len(o))
	for k := range o {
		keys = append(keys, k)
	}
	sort.Strings(keys)
	var b strings.Builder
	for _, k := range keys {
		b.WriteString(k + "=" + o[k] + "\n")
	}
	return b.String()
}

func runC35(rc *RC) {
	if rc.Pick(3, 1) == 1 {
		c35Builders(rc)
		return
	}
	kind := rc.Pick(3, 3, 3, 1, 1, 1, 1)
	kindName := []string{"basic world", "mutable overlay world (no writers)", "compact world", "mutable overlay world over compact world (no writers)", "basic mutable world (no writers)", "mutable tags overlay world (no writers)", "overlay world"}[kind]
	name := "C35/readers on " + kindName
	rc.Phase(name)
	g := newCityGen(rc)
	compactBase := kind == 2 || kind == 3 || ((kind == 5 || kind == 6) && rc.Pct(50))
	g.noBaseCollections = compactBase
	specs := g.baseCity(true)
	// the worlds are built later, after operations have been generated and
	// recorded in the generator's own copy of the city: build from a snapshot
	// of the city as it is now (commit() edits the generator's specs in place)
	for i := range specs {
		specs[i] = specs[i].clone()
	}
	cache := []int{1, 2, 4, 8}[rc.Draw(4)]
	rc.Knob("world-kind", kind)
	if compactBase {
		rc.Knob("FeaturesByIDCacheSize", cache)
		simrt.SetKnob("FeaturesByIDCacheSize", cache)
	}
	// what lies under the overlay kinds: a built world (0); a
	// BasicMutableWorld that was edited and is now left alone (1); for the
	// mutable overlay world, its own snapshot layer (2). Edited bases hold
	// features whose tag lists were appended to in place.
	baseShape := 0
	var baseOps []op
	var hot []b6.FeatureID // features whose tags the overlay merges on every read
	if (kind == 1 || kind == 5) && !compactBase && rc.Pct(50) {
		baseShape = 1 + rc.Draw(kind%5+1) // kind 1: 1 or 2; kind 5: 1
		// a few features take most of the edits: several appended keys and a
		// removal leave their tag lists with spare capacity
		var focus []b6.FeatureID
		for n := rc.Range(1, 2); n > 0; n-- {
			if id, ok := g.anyExistingID(); ok {
				focus = append(focus, id)
			}
		}
		addBase := func(o op) {
			if g.specs[o.ID] != nil {
				baseOps = append(baseOps, o)
				g.commit(o)
			}
		}
		for _, id := range focus {
			// two appended keys and the removal of one: whatever the list's
			// capacity was, it now has room to spare
			g.valueCounter += 2
			k1, k2 := fmt.Sprintf("base%d", g.valueCounter-1), fmt.Sprintf("base%d", g.valueCounter)
			addBase(op{Kind: "addtag", ID: id, Key: k1, Val: "x"})
			addBase(op{Kind: "addtag", ID: id, Key: k2, Val: "y"})
			addBase(op{Kind: "removetag", ID: id, Key: k1})
		}
		for n := rc.Range(0, 6); n > 0; n-- {
			o := g.genTagOp()
			if o.Kind == "addtag" && rc.Pct(30) {
				o.Key = []string{"#amenity", "#building", "note"}[rc.Draw(3)]
			}
			addBase(o)
		}
		hot = focus
	}
	rc.Knob("base-shape", baseShape)
	var overlayOps []op
	if kind == 1 || kind == 5 {
		// plain keys added to base features: held as tag modifications and
		// merged into the base feature's tags by every read
		for n := rc.Range(min(1, len(hot)), 3); n > 0; n-- {
			if id, ok := g.anyExistingID(); ok {
				// prefer features the base edited in place, and keys the
				// feature does not have yet (a pure addition)
				if len(hot) > 0 && rc.Pct(80) {
					id = hot[rc.Draw(len(hot))]
				}
				g.valueCounter++
				key := []string{"levels", "note", "name"}[rc.Draw(3)]
				if rc.Pct(70) {
					key = fmt.Sprintf("extra%d", g.valueCounter)
				}
				o := op{Kind: "addtag", ID: id, Key: key, Val: fmt.Sprintf("v%d", g.valueCounter)}
				overlayOps = append(overlayOps, o)
				hot = append(hot, id)
				g.commit(o)
			}
		}
	}
	switch kind {
	case 1, 3, 4:
		for n := rc.Range(1, 8); n > 0; n-- {
			o := g.genOp(opMix{noInvalid: true, richTypes: kind != 3})
			overlayOps = append(overlayOps, o)
			g.commit(o)
		}
	case 5:
		for n := rc.Range(1, 8); n > 0; n-- {
			o := g.genTagOp()
			overlayOps = append(overlayOps, o)
			g.commit(o)
		}
	}
	// the upper layer of a (read-only) OverlayWorld: replaced and new points
	var upper []*fspec
	if kind == 6 {
		seen := map[b6.FeatureID]bool{}
		for n := rc.Range(0, 6); n > 0; n-- {
			s := g.pointSpec(rc.Draw(maxPoints), 3)
			s.Tags = g.someTags(2)
			if !seen[s.ID] {
				seen[s.ID] = true
				upper = append(upper, s)
			}
		}
	}
	newBase := func() (b6.World, error) {
		if compactBase {
			return newCompactWorld(specs, 1)
		}
		if baseShape == 1 {
			m := ingest.NewBasicMutableWorld()
			for _, f := range buildAll(specs) {
				if err := m.AddFeature(f); err != nil {
					return nil, err
				}
			}
			for _, x := range baseOps {
				if err := x.apply(m); err != nil {
					return nil, fmt.Errorf("%s: %v", x, err)
				}
			}
			return m, nil
		}
		return newBasicWorld(specs)
	}
	build := func() (b6.World, error) {
		switch kind {
		case 0, 2:
			return newBase()
		case 4:
			m := ingest.NewBasicMutableWorld()
			for _, f := range buildAll(specs) {
				if err := m.AddFeature(f); err != nil {
					return nil, err
				}
			}
			for _, x := range overlayOps {
				if err := x.apply(m); err != nil && x.Kind == "add" {
					return nil, fmt.Errorf("%s: %v", x, err)
				}
			}
			return m, nil
		case 5:
			bw, err := newBase()
			if err != nil {
				return nil, err
			}
			o := ingest.NewMutableTagsOverlayWorld(bw)
			for _, x := range overlayOps {
				if x.Kind == "addtag" {
					o.AddTag(x.ID, b6.Tag{Key: x.Key, Value: b6.NewStringExpression(x.Val)})
				}
			}
			return o, nil
		case 6:
			bw, err := newBase()
			if err != nil {
				return nil, err
			}
			ow, err := newBasicWorld(upper)
			if err != nil {
				return nil, err
			}
			return ingest.NewOverlayWorld(ow, bw), nil
		}
		bw, err := newBase()
		if err != nil {
			return nil, err
		}
		for _, id := range hot {
			if f := bw.FindFeatureByID(id); f != nil {
				if t := f.AllTags(); cap(t) > len(t) {
					rc.Probe("base-feature-tag-list-has-spare-capacity")
				}
			}
		}
		o := ingest.NewMutableOverlayWorld(bw)
		if baseShape == 2 {
			for _, x := range baseOps {
				if err := x.apply(o); err != nil {
					return nil, fmt.Errorf("%s: %v", x, err)
				}
			}
			o.Snapshot()
		}
		for _, x := range overlayOps {
			if err := x.apply(o); err != nil && x.Kind == "add" {
				return nil, fmt.Errorf("%s: %v", x, err)
			}
		}
		return o, nil
	}
	w, err := build()
	if err != nil {
		rc.Fail("HARNESS/fixture", "%v", err)
		return
	}
	twin, err := build()
	if err != nil {
		rc.Fail("HARNESS/fixture", "%v", err)
		return
	}
	ids := g.sortedIDs(b6.FeatureTypeInvalid)
	var points []b6.FeatureID
	for _, id := range ids {
		if id.Type == b6.FeatureTypePoint {
			points = append(points, id)
		}
	}
	nReaders := rc.Range(2, 4)
	plans := make([][]c35Query, nReaders)
	expected := make([][]string, nReaders)
	for r := range plans {
		for n := rc.Range(3, 10); n > 0; n-- {
			var q c35Query
			switch rc.Pick(5, 3, 2, 3, 1) {
			case 0:
				q = c35Query{kind: "feature", id: ids[rc.Draw(len(ids))]}
				if len(hot) > 0 && rc.Pct(40) {
					q.id = hot[rc.Draw(len(hot))]
				}
				if rc.Pct(50) && len(plans[r]) > 0 {
					q.id = plans[r][rc.Draw(len(plans[r]))].id // revisit: cache hit / re-decode after eviction
					if !q.id.IsValid() {
						q.id = ids[rc.Draw(len(ids))]
					}
				}
			case 1:
				q = c35Query{kind: "refs", id: ids[rc.Draw(len(ids))]}
			case 2:
				q = c35Query{kind: "trav", id: points[rc.Draw(len(points))]}
			case 3:
				q = c35Query{kind: "find", q: rc.Draw(len(obsQueries()))}
			default:
				q = c35Query{kind: "each", g: rc.Range(1, 3)}
			}
			plans[r] = append(plans[r], q)
			rc.Case(r, q.String())
		}
	}
	if len(hot) > 0 {
		readers := 0
		for r := range plans {
			for _, q := range plans[r] {
				if q.kind == "find" || q.kind == "each" || (q.kind == "feature" && q.id == hot[0]) {
					readers++
					break
				}
			}
		}
		if readers >= 2 {
			rc.Probe("two-readers-read-a-feature-with-merged-tags")
		}
	}
	// expected answers: each query alone, on the twin
	for r := range plans {
		for _, q := range plans[r] {
			expected[r] = append(expected[r], q.run(twin))
		}
	}
	rc.Knob("readers", nReaders)
	got := make([][]string, nReaders)
	var wg ssync.WaitGroup
	for r := 0; r < nReaders; r++ {
		r := r
		wg.Add(1)
		simrt.GoNamed(fmt.Sprintf("reader%d", r), func() {
			defer wg.Done()
			// first without formatting anything (touch.go: fmt's pooled
			// printer would order the readers for the race detector) ...
			for _, q := range plans[r] {
				q.touch(w)
			}
			// ... then the pass whose answers are compared
			for _, q := range plans[r] {
				got[r] = append(got[r], q.run(w))
			}
		})
	}
	wg.Wait()
	for r := range plans {
		for i, q := range plans[r] {
			if i >= len(got[r]) {
				rc.Fail(name+"/query-did-not-complete", "reader %d did not complete %s", r, q)
				return
			}
			if got[r][i] != expected[r][i] {
				rc.Fail(name+"/concurrent-answer-differs:"+q.kind, "reader %d, query %d (%s) returned, while %d other readers were active,\n%s\nbut alone it returns\n%s", r, i, q, nReaders-1, clipS(got[r][i], 1500), clipS(expected[r][i], 1500))
				return
			}
		}
	}
}

func c35Builders(rc *RC) {
	g := newCityGen(rc)
	which := rc.Draw(3)
	names := []string{"ingest.NewWorldFromSource", "ingest.NewMutableWorldFromSource", "compact.BuildInMemory"}
	name := "C35/builder " + names[which]
	rc.Phase(name)
	specs, _ := invalidSource(rc, g, which == 2)
	n := rc.Range(2, 8)
	rc.Knob("goroutines", n)
	rc.Case(names[which], n, fmt.Sprint(specs))
	var err error
	rc.Guard(name+"/panic", func() {
		switch which {
		case 0:
			_, err = ingest.NewWorldFromSource(ingest.MemoryFeatureSource(buildAll(specs)), &ingest.BuildOptions{Cores: n})
		case 1:
			_, err = ingest.NewMutableWorldFromSource(&ingest.BuildOptions{Cores: n}, ingest.MemoryFeatureSource(buildAll(specs)))
		default:
			simrt.SetKnob("NumCPU", rc.Range(1, 4))
			_, err = compact.BuildInMemory(ingest.MemoryFeatureSource(buildAll(specs)), &compact.Options{Goroutines: min(n, 4), PointsScratchOutputType: compact.OutputTypeMemory})
		}
	})
	_ = err
}
