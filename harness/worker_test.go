package harness

import (
	"encoding/binary"
	"encoding/json"
	"fmt"
	"io"
	"log"
	"os"
	"path/filepath"
	"runtime"
	"runtime/debug"
	"strconv"
	"sync/atomic"
	"testing"
	"time"

	"verif/simrt"
)

// WorkerSummary is written by each worker process to VERIF_OUT.
type WorkerSummary struct {
	Prop         string         `json:"prop"`
	Worker       int            `json:"worker"`
	Seed         uint64         `json:"seed"`
	Start        uint64         `json:"start"`
	Runs         int            `json:"runs"`
	Nontrivial   int            `json:"nontrivial"`
	Steps        int64          `json:"steps"`
	Decisions    int64          `json:"decisions"`
	Switches     int64          `json:"switches"`
	Tasks        int64          `json:"tasks"`
	Preempts     int64          `json:"preempts"`
	Fired        map[string]int `json:"faults_fired"`
	Configured   map[string]int `json:"faults_configured"`
	Probes       map[string]int `json:"probes"`
	Knobs        map[string]int `json:"knob_histogram"`
	Failures     []*RunRecord   `json:"failures"` // first run of each distinct class
	FailCount    map[string]int `json:"fail_count"`
	Samples      []*RunRecord   `json:"samples"`
	WallS        float64        `json:"wall_s"`
	DirtyRuns    int            `json:"dirty_runs"`
	StoppedEarly string         `json:"stopped_early,omitempty"`
	Race         bool           `json:"race_build"`
	// Complete is false in the checkpoints a worker writes as it goes and
	// true in the summary written when it ends normally
	Complete bool `json:"complete"`
}

func envInt(name string, def int64) int64 {
	if v := os.Getenv(name); v != "" {
		n, err := strconv.ParseInt(v, 10, 64)
		if err != nil {
			fmt.Fprintf(os.Stderr, "bad %s=%q\n", name, v)
			os.Exit(2)
		}
		return n
	}
	return def
}

func envUint(name string, def uint64) uint64 {
	if v := os.Getenv(name); v != "" {
		n, err := strconv.ParseUint(v, 10, 64)
		if err != nil {
			fmt.Fprintf(os.Stderr, "bad %s=%q\n", name, v)
			os.Exit(2)
		}
		return n
	}
	return def
}

var watchdogBeat atomic.Int64

// The watchdog lives outside every bubble: if one run makes no progress for
// VERIF_WATCHDOG seconds (a goroutine blocked where the bubble cannot see
// it), the worker dumps stacks and exits 3; the driver reports exit 2
// (harness trouble), never a VIOLATION.
func startWatchdog() {
	limit := time.Duration(envInt("VERIF_WATCHDOG", 120)) * time.Second
	watchdogBeat.Store(time.Now().UnixNano())
	go func() {
		lastProgress, lastChange := simrt.Progress.Load(), time.Now()
		for {
			time.Sleep(2 * time.Second)
			// progress = a new run started, or the scheduler of the current
			// run made a step: a long run on a loaded machine is not a stall
			if p := simrt.Progress.Load(); p != lastProgress {
				lastProgress, lastChange = p, time.Now()
			}
			if b := time.Unix(0, watchdogBeat.Load()); b.After(lastChange) {
				lastChange = b
			}
			if time.Since(lastChange) > limit {
				buf := make([]byte, 4<<20)
				n := runtime.Stack(buf, true)
				fmt.Fprintf(os.Stderr, "WATCHDOG: run made no progress for %v\n%s\n", limit, buf[:n])
				os.Exit(3)
			}
		}
	}()
}

func TestScenario(t *testing.T) {
	prop := os.Getenv("VERIF_PROP")
	if prop == "" {
		t.Skip("VERIF_PROP not set")
	}
	sc := scenarios[prop]
	if sc == nil {
		fmt.Fprintf(os.Stderr, "no scenario for %s\n", prop)
		os.Exit(2)
	}
	log.SetOutput(io.Discard)
	debug.SetMaxStack(int(envInt("VERIF_MAXSTACK", 64<<20)))
	startWatchdog()
	switch {
	case os.Getenv("VERIF_REPLAY") != "":
		workerReplay(t, sc)
	case os.Getenv("VERIF_SHRINK") != "":
		workerShrink(t, sc)
	default:
		workerBatch(t, sc)
	}
}

type replayFile struct {
	Property string     `json:"property"`
	Class    string     `json:"class"`
	Detail   string     `json:"detail"`
	Seed     uint64     `json:"seed"`
	Run      uint64     `json:"run"`
	TreeHash string     `json:"tree_hash"`
	Shrunk   bool       `json:"shrunk"`
	Tries    int        `json:"shrink_tries"`
	Live     bool       `json:"live,omitempty"`
	TapeG    []uint32   `json:"tape_g"`
	TapeS    []uint32   `json:"tape_s"`
	Record   *RunRecord `json:"decoded"`
}

func readReplay(path string) *replayFile {
	b, err := os.ReadFile(path)
	if err != nil {
		fmt.Fprintln(os.Stderr, err)
		os.Exit(2)
	}
	var rf replayFile
	if err := json.Unmarshal(b, &rf); err != nil {
		fmt.Fprintln(os.Stderr, err)
		os.Exit(2)
	}
	return &rf
}

func writeJSON(path string, v any) {
	b, err := json.MarshalIndent(v, "", " ")
	if err != nil {
		fmt.Fprintln(os.Stderr, err)
		os.Exit(2)
	}
	if err := os.WriteFile(path, b, 0o644); err != nil {
		fmt.Fprintln(os.Stderr, err)
		os.Exit(2)
	}
}

// workerReplay re-executes a replay file and writes the run record to
// VERIF_OUT/replay.json.
func workerReplay(t *testing.T, sc *Scenario) {
	rf := readReplay(os.Getenv("VERIF_REPLAY"))
	fmt.Printf("R replay\n")
	tape := simrt.ReplayTape(rf.TapeG, rf.TapeS)
	if rf.Live {
		// crash-class replays carry no tape (the worker died before it could
		// be recorded): regenerate it from (seed, run)
		tape = simrt.NewTape(rf.Seed, rf.Run)
	}
	rec := ExecRun(t, sc, tape, rf.Seed, rf.Run, true)
	writeJSON(filepath.Join(os.Getenv("VERIF_OUT"), "replay.json"), rec)
}

// workerShrink minimises the tape of a replay file in-process and writes
// VERIF_OUT/shrunk.json (a replay file).
func workerShrink(t *testing.T, sc *Scenario) {
	rf := readReplay(os.Getenv("VERIF_SHRINK"))
	budget := time.Duration(envInt("VERIF_SHRINK_S", 45)) * time.Second
	dirty := 0
	try := func(g, s []uint32) *Failure {
		watchdogBeat.Store(time.Now().UnixNano())
		rec := ExecRun(t, sc, simrt.ReplayTape(g, s), rf.Seed, rf.Run, false)
		if rec.Dirty {
			dirty++
		}
		return rec.Fail
	}
	g, s, tries := shrinkTape(rf.TapeG, rf.TapeS, rf.Class, budget, try)
	rec := ExecRun(t, sc, simrt.ReplayTape(g, s), rf.Seed, rf.Run, true)
	out := &replayFile{Property: rf.Property, Class: rf.Class, Seed: rf.Seed, Run: rf.Run, TreeHash: rf.TreeHash, Shrunk: true, Tries: tries, TapeG: g, TapeS: s, Record: rec}
	if rec.Fail == nil || rec.Fail.Class != rf.Class {
		// shrinking must end on a failing tape of the same class; if the
		// final confirmation disagrees the run is not deterministic
		fmt.Fprintf(os.Stderr, "SHRINK-NONDETERMINISTIC: final tape does not reproduce class %s\n", rf.Class)
		out.TapeG, out.TapeS, out.Shrunk = rf.TapeG, rf.TapeS, false
		out.Record = ExecRun(t, sc, simrt.ReplayTape(rf.TapeG, rf.TapeS), rf.Seed, rf.Run, true)
	}
	if out.Record.Fail != nil {
		out.Detail = out.Record.Fail.Detail
	}
	writeJSON(filepath.Join(os.Getenv("VERIF_OUT"), "shrunk.json"), out)
}

func workerBatch(t *testing.T, sc *Scenario) {
	seed := envUint("VERIF_SEED", 1)
	start := envUint("VERIF_START", 0)
	count := envUint("VERIF_COUNT", 100)
	stride := envUint("VERIF_STRIDE", 1)
	worker := int(envInt("VERIF_WORKER", 0))
	budget := time.Duration(envInt("VERIF_TIME_S", 3600)) * time.Second
	out := os.Getenv("VERIF_OUT")
	dumpHashes := os.Getenv("VERIF_HASHES") != ""
	t0 := time.Now()
	sum := &WorkerSummary{Prop: sc.Prop, Worker: worker, Seed: seed, Start: start, Fired: map[string]int{}, Configured: map[string]int{}, Probes: map[string]int{}, Knobs: map[string]int{}, FailCount: map[string]int{}, Race: simrt.RaceBuild}
	traceHashes := map[uint64]struct{}{}
	caseHashes := map[uint64]struct{}{}
	checkpoint := func(complete bool) {
		sum.Complete = complete
		sum.WallS = time.Since(t0).Seconds()
		writeJSON(filepath.Join(out, fmt.Sprintf("worker-%d.json", worker)), sum)
		writeHashes(filepath.Join(out, fmt.Sprintf("worker-%d.trace", worker)), traceHashes)
		writeHashes(filepath.Join(out, fmt.Sprintf("worker-%d.case", worker)), caseHashes)
	}
	lastCheckpoint := time.Now()
	for i := uint64(0); i < count; i++ {
		if time.Since(t0) > budget {
			sum.StoppedEarly = "time budget"
			break
		}
		// what was done so far survives a fatal crash of this process (the
		// driver attributes the crash to the run announced last and starts
		// a new worker after it)
		if out != "" && time.Since(lastCheckpoint) > 3*time.Second {
			checkpoint(false)
			lastCheckpoint = time.Now()
		}
		run := start + i*stride
		watchdogBeat.Store(time.Now().UnixNano())
		fmt.Printf("R %d\n", run)
		keep := len(sum.Samples) < 2 && i < 40
		rec := ExecRun(t, sc, simrt.NewTape(seed, run), seed, run, keep)
		if dumpHashes {
			cls := "-"
			if rec.Fail != nil {
				cls = rec.Fail.Class
			}
			fmt.Printf("H %d %016x %016x %d %d %s\n", run, rec.TraceHash, rec.CaseHash, rec.Steps, len(rec.TapeG)+len(rec.TapeS), cls)
		}
		sum.Runs++
		sum.Steps += int64(rec.Steps)
		sum.Decisions += int64(rec.Decisions)
		sum.Switches += int64(rec.Switches)
		sum.Tasks += int64(rec.Tasks)
		sum.Preempts += int64(rec.Preempts)
		for k, v := range rec.Fired {
			sum.Fired[k] += v
		}
		for k, v := range rec.Configured {
			sum.Configured[k] += v
		}
		for k, v := range rec.Probes {
			sum.Probes[k] += v
		}
		for k, v := range rec.Knobs {
			sum.Knobs[fmt.Sprintf("%s=%d", k, v)]++
		}
		if rec.Nontrivial {
			sum.Nontrivial++
			traceHashes[rec.TraceHash] = struct{}{}
			caseHashes[rec.CaseHash] = struct{}{}
		}
		if rec.Dirty {
			sum.DirtyRuns++
		}
		if rec.Fail != nil {
			sum.FailCount[rec.Fail.Class]++
			if sum.FailCount[rec.Fail.Class] == 1 && len(sum.Failures) < 12 {
				if !keep {
					// re-run with logging for the decoded trace
					rec2 := ExecRun(t, sc, simrt.ReplayTape(rec.TapeG, rec.TapeS), seed, run, true)
					if rec2.Fail != nil && rec2.Fail.Class == rec.Fail.Class {
						rec = rec2
					} else {
						rec.Notes = append(rec.Notes, "WARNING: re-execution of this tape did not reproduce the failure class")
					}
				}
				sum.Failures = append(sum.Failures, rec)
				fmt.Printf("F %s\n", rec.Fail.Class)
			}
		} else if keep && rec.Nontrivial {
			rec.TapeG, rec.TapeS = nil, nil
			if len(rec.Log) > 60 {
				rec.Log = rec.Log[:60]
			}
			if len(rec.Notes) > 60 {
				rec.Notes = rec.Notes[:60]
			}
			sum.Samples = append(sum.Samples, rec)
		}
		if sum.DirtyRuns > 400 {
			sum.StoppedEarly = "too many deadlocked runs leaked goroutines"
			break
		}
	}
	checkpoint(true)
	fmt.Printf("DONE %d\n", sum.Runs)
}

func writeHashes(path string, m map[uint64]struct{}) {
	b := make([]byte, 0, 8*len(m))
	for h := range m {
		b = binary.LittleEndian.AppendUint64(b, h)
	}
	if err := os.WriteFile(path, b, 0o644); err != nil {
		fmt.Fprintln(os.Stderr, err)
		os.Exit(2)
	}
}

// TestDescribe prints the scenario's metadata for the driver.
func TestDescribe(t *testing.T) {
	if os.Getenv("VERIF_DESCRIBE") == "" {
		t.Skip()
	}
	sc := scenarios[os.Getenv("VERIF_PROP")]
	if sc == nil {
		return
	}
	level := sc.Level
	if level == "" {
		level = "exploration"
	}
	b, _ := json.Marshal(map[string]any{"prop": sc.Prop, "real": sc.Real, "stubs": sc.Stubs, "assumptions": sc.Assumptions, "rule": sc.Rule, "nontrivial_by_case": sc.NontrivialByCase, "needs_race": sc.NeedsRace, "level": level})
	fmt.Printf("DESCRIBE %s\n", b)
}
