package harness

import (
	"errors"
	"fmt"

	"diagonal.works/b6"
	"diagonal.works/b6/ingest"
)

// C13: a rejected change leaves the world as it was; a merged change
// applies all of its parts or none.

func init() {
	register(&Scenario{
		Prop: "C13",
		Run:  runC13,
		Real: []string{
			"ingest.BasicMutableWorld, ingest.MutableOverlayWorld (over a basic base, with and without a snapshot layer)",
			"ingest.ValidateFeature / ValidateArea, reference maintenance, search index maintenance",
			"ingest.MergedChange with its canary overlay, ingest.AddFeatures / AddTags / RemoveTags",
		},
		Stubs: []string{"failingChange (harness): an ingest.Change that always fails, deterministically, on canary and real world alike"},
		Assumptions: []string{
			"'answers every query exactly as before' is checked over the bounded id universe and the fixed query list of the observation function (DESIGN.md §6), all sections",
			"single-threaded by design (the code makes no claim about concurrent mutation): the schedule dimension is empty, the fault dimension is the injected rejection",
		},
		Rule:             "one case = (world kind, base city, history of <=30 operations with 1-3 injected rejections / failing merged-change parts); non-trivial = at least one rejection actually fired; distinct = distinct hash of the generated history",
		NontrivialByCase: true,
		Level:            "fault_enumeration",
	})
}

type failingChange struct{}

var errFailingPart = errors.New("injected failing change part")

func (failingChange) Apply(w ingest.MutableWorld) (b6.Collection[b6.FeatureID, b6.FeatureID], error) {
	return b6.ArrayCollection[b6.FeatureID, b6.FeatureID]{}.Collection(), errFailingPart
}

func runC13(rc *RC) {
	g := newCityGen(rc)
	kind := rc.Pick(3, 3, 3, 1, 1, 1) // wkCountAll kinds
	rc.Knob("world-kind", kind)
	g.noBaseCollections = kind == wkOverlayOverCompact
	base := g.baseCity(true)
	w, err := makeMutableWorld(rc, g, kind, base)
	g.mixedAreas = true // only for features added from here on
	if err != nil {
		rc.Fail("HARNESS/fixture", "%v", err)
		return
	}
	twin, err := makeMutableWorld(rc, g, kind, base)
	if err != nil {
		rc.Fail("HARNESS/fixture", "%v", err)
		return
	}
	ids := universe()
	name := worldKindNames[kind]
	rc.Phase("C13/" + name)
	rc.Notef("world: %s; base city of %d features", name, len(base))
	steps := rc.Range(3, 24)
	mix := opMix{invalidPct: 35, richTypes: true}
	rejections := 0
	var queue []op
	snapshotAt := -1
	if kind == wkOverlayWithSnapshot {
		snapshotAt = rc.Draw(steps)
	}
	full := obsOpts{}
	for i := 0; i < steps && !rc.Failed(); i++ {
		if i == snapshotAt {
			rc.Guard("C13/"+name+"/panic", func() {
				w.(*ingest.MutableOverlayWorld).Snapshot()
				twin.(*ingest.MutableOverlayWorld).Snapshot()
			})
			rc.Notef("#%d Snapshot()", i)
			continue
		}
		if len(queue) == 0 && rc.Pct(5) {
			queue = g.twinRingOps(rc.Pct(30))
		}
		if len(queue) == 0 && rc.Pct(22) {
			c13Merged(rc, g, w, twin, ids, name, i, &rejections)
			continue
		}
		o := g.genOp(mix)
		if len(queue) > 0 {
			// a ring closed by a second point at its first vertex's position,
			// with an area on it: later moves of those points are judged by
			// the area's validation only
			o, queue = queue[0], queue[1:]
		}
		rc.Case(o.String())
		if o.Invalid != "" {
			rc.Configured("reject")
		}
		before := Observe(w, ids, full)
		var err error
		ok := rc.Guard("C13/"+name+"/panic", func() { err = o.apply(w) })
		if !ok {
			rc.Notef("#%d %s -> PANIC", i, o)
			return
		}
		rc.Notef("#%d %s -> %v", i, o, err)
		if err != nil {
			rejections++
			rc.Fired("reject")
			after := Observe(w, ids, full)
			if d := before.Diff(after, 1); len(d) > 0 {
				rc.Fail("C13/"+name+"/rejected-change-visible:"+section(d[0]), "%s returned error %q but the world answers differently afterwards:\n%s", o, err, before.DiffString(after, "before", "after "))
				return
			}
		} else {
			g.commit(o)
			var terr error
			rc.Guard("C13/"+name+"/panic", func() { terr = o.apply(twin) })
			if terr != nil {
				rc.Fail("C13/"+name+"/twin-disagrees", "%s succeeded on one world and failed on an identical twin: %v", o, terr)
				return
			}
		}
	}
	rc.SetNontrivial(rejections > 0)
	if rejections > 0 {
		rc.Probe("rejection-fired")
	}
	if rc.Failed() {
		return
	}
	// latent corruption: the world that saw the rejected attempts must equal
	// the twin that never saw them
	a, b := Observe(w, ids, full).Without("tokens"), Observe(twin, ids, full).Without("tokens")
	if d := a.Diff(b, 1); len(d) > 0 {
		rc.Fail("C13/"+name+"/differs-from-twin:"+section(d[0]), "after the history, the world that was offered (and refused) %d invalid changes differs from a twin that only saw the accepted ones:\n%s", rejections, a.DiffString(b, "world", "twin "))
	}
}

// c13Merged applies one merged change of 2-4 parts, possibly with a failing
// part at a tape-chosen position.
func c13Merged(rc *RC, g *cityGen, w, twin ingest.MutableWorld, ids []b6.FeatureID, name string, step int, rejections *int) {
	n := rc.Range(2, 4)
	failAt := -1
	if rc.Pct(60) {
		failAt = rc.Draw(n)
		rc.Configured("fail-part")
	}
	useInjected := rc.Pct(50)
	var parts []op
	var changes ingest.MergedChange
	desc := ""
	// parts are generated against a scratch copy of the belief so that later
	// parts may build on earlier ones
	saved := map[b6.FeatureID]*fspec{}
	for id, s := range g.specs {
		saved[id] = s.clone()
	}
	for k := 0; k < n; k++ {
		if k == failAt {
			if useInjected {
				changes = append(changes, failingChange{})
				desc += fmt.Sprintf(" [%d] failingChange", k)
				parts = append(parts, op{Kind: "fail"})
				continue
			}
			o := g.genInvalidAdd()
			parts = append(parts, o)
			changes = append(changes, o.toChange())
			desc += fmt.Sprintf(" [%d] %s", k, o)
			continue
		}
		o := g.genOp(opMix{noInvalid: true, richTypes: true})
		if ends := g.twinRingEnds(); k == n-1 && len(ends) > 0 && rc.Pct(50) {
			// the last part moves an end of a ring that only its area's
			// validation sees as closed: whether the world takes it or not,
			// the merged change must be all or nothing
			s := g.specs[ends[rc.Draw(len(ends))]].clone()
			s.Lat += int32(rc.Range(1, 60))
			o = op{Kind: "add", Spec: s}
			rc.Probe("merged-moves-twin-ring-end")
		}
		g.commit(o)
		parts = append(parts, o)
		changes = append(changes, o.toChange())
		desc += fmt.Sprintf(" [%d] %s", k, o)
	}
	g.specs = saved
	rc.Case("merged", desc)
	full := obsOpts{}
	before := Observe(w, ids, full)
	var err error
	if !rc.Guard("C13/"+name+"/panic", func() { _, err = changes.Apply(w) }) {
		rc.Notef("#%d MergedChange{%s } -> PANIC", step, desc)
		return
	}
	rc.Notef("#%d MergedChange{%s } -> %v", step, desc, err)
	if err != nil {
		*rejections++
		rc.Fired("fail-part")
		after := Observe(w, ids, full)
		if d := before.Diff(after, 1); len(d) > 0 {
			rc.Fail("C13/"+name+"/merged-change-partially-visible:"+section(d[0]), "MergedChange{%s } returned error %q but the world answers differently afterwards:\n%s", desc, err, before.DiffString(after, "before", "after "))
		}
		return
	}
	// success: equal to applying the parts one by one on the twin
	for _, o := range parts {
		if o.Kind == "fail" {
			rc.Fail("C13/"+name+"/failing-part-ignored", "MergedChange{%s } contains a part that always fails but Apply returned nil", desc)
			return
		}
		var terr error
		rc.Guard("C13/"+name+"/panic", func() { terr = o.apply(twin) })
		if terr != nil {
			rc.Fail("C13/"+name+"/merged-success-but-part-fails-alone", "MergedChange{%s } succeeded, but applying its parts one by one to an identical twin fails at %s: %v", desc, o, terr)
			return
		}
		g.commit(o)
	}
	a, b := Observe(w, ids, full).Without("tokens"), Observe(twin, ids, full).Without("tokens")
	if d := a.Diff(b, 1); len(d) > 0 {
		rc.Fail("C13/"+name+"/merged-differs-from-sequential:"+section(d[0]), "MergedChange{%s } succeeded but the world differs from a twin that applied the parts one by one:\n%s", desc, a.DiffString(b, "merged    ", "sequential"))
	}
}
