package harness

import (
	"fmt"
	"math"
	"sort"
	"strings"

	"diagonal.works/b6"
	"diagonal.works/b6/ingest"
	"diagonal.works/b6/ingest/compact"
	"github.com/golang/geo/s2"
	"verif/simrt"
)

// C37: every feature present in a built or edited world is valid.

func init() {
	register(&Scenario{
		Prop:    "C37",
		Preempt: true,
		Run:     runC37,
		Real: []string{
			"ingest.NewWorldFromSource / BasicWorldBuilder.Finish (validate and index stages, cores 1-8) and compact.BuildInMemory with its Validator queue (goroutines 1-3), FailInvalidFeatures=false, all under the simulated scheduler",
			"BasicMutableWorld and MutableOverlayWorld edit histories including rejected edits",
		},
		Stubs: []string{"independent validator (harness): re-implements the validity rules on s2 primitives from what the world returns through its public API"},
		Assumptions: []string{
			"only 'present => valid' is asserted, never 'valid => kept'",
			"a path counts as closed when it has at least 4 points and its first and last points coincide; closed paths must have >=3 distinct consecutive vertices and positive (counter-clockwise) signed area; self-intersection is not tested (the repository's s2 port does not test it either, and the generator makes no self-intersecting rings)",
		},
		Rule: "one case = (builder or edit history, source with 10-40% invalid features, goroutine count) under one schedule; non-trivial = at least one invalid feature was offered; distinct = distinct hash of (case, schedule trace)",
	})
}

// validateWorld checks every feature the world enumerates (and every id of
// the universe it claims to have). It returns "" or the first violation.
func validateWorld(w b6.World, ids []b6.FeatureID) string {
	var problems []string
	seen := map[b6.FeatureID]bool{}
	check := func(f b6.Feature) {
		id := f.FeatureID()
		if seen[id] {
			return
		}
		seen[id] = true
		if p := validateFeature(w, f); p != "" {
			problems = append(problems, p)
		}
	}
	var each []b6.Feature
	err := w.EachFeature(func(f b6.Feature, g int) error {
		eachAppend(&each, f)
		return nil
	}, &b6.EachFeatureOptions{Goroutines: 1})
	if err != nil {
		return "EachFeature failed: " + err.Error()
	}
	for _, f := range each {
		check(f)
	}
	for _, id := range ids {
		if w.HasFeatureWithID(id) {
			if f := w.FindFeatureByID(id); f != nil {
				check(f)
			} else {
				problems = append(problems, fmt.Sprintf("%s: HasFeatureWithID is true but FindFeatureByID returns nil", id))
			}
		}
	}
	sort.Strings(problems)
	if len(problems) == 0 {
		return ""
	}
	if len(problems) > 4 {
		problems = problems[:4]
	}
	return strings.Join(problems, "\n")
}

//go:norace
func eachAppend(dst *[]b6.Feature, f b6.Feature) { *dst = append(*dst, f) }

func pathPointsOf(f b6.Feature) (pts []s2.Point, problem string) {
	p, ok := f.(b6.PhysicalFeature)
	if !ok {
		return nil, fmt.Sprintf("%s: not a physical feature (%T)", f.FeatureID(), f)
	}
	n := p.GeometryLen()
	for i := 0; i < n; i++ {
		var pt s2.Point
		msg := safe(func() string { pt = p.PointAt(i); return "" })
		if msg != "" {
			return nil, fmt.Sprintf("%s: point %d of %d does not resolve (%s)", f.FeatureID(), i, n, msg)
		}
		if pt.Norm() == 0 {
			return nil, fmt.Sprintf("%s: point %d of %d does not resolve to a location", f.FeatureID(), i, n)
		}
		pts = append(pts, pt)
	}
	return pts, ""
}

// ringProblem judges the ring a closed point list traces: no repeated
// consecutive vertex, and not (clearly) clockwise.
func ringProblem(pts []s2.Point) string {
	ring := pts[:len(pts)-1]
	for i := range ring {
		if pointE7(ring[i]) == pointE7(ring[(i+1)%len(ring)]) {
			return fmt.Sprintf("a repeated consecutive vertex at %d", i)
		}
	}
	// signed area by the shoelace formula on (lng, lat): positive = counter-clockwise
	area := 0.0
	for i := range ring {
		a, b := s2.LatLngFromPoint(ring[i]), s2.LatLngFromPoint(ring[(i+1)%len(ring)])
		area += a.Lng.Degrees()*b.Lat.Degrees() - b.Lng.Degrees()*a.Lat.Degrees()
	}
	// Clearly clockwise only: a ring whose moved corner makes it
	// (numerically) degenerate has signed area ~0 (+-1e-15), which
	// is a self-touching ring - like self-intersection, something
	// neither the repository's validation nor this check judges.
	if area < -1e-10 || math.IsNaN(area) {
		return fmt.Sprintf("clockwise order (signed area %g)", area)
	}
	return ""
}

func isClosed(pts []s2.Point) bool {
	return len(pts) >= 4 && pointE7(pts[0]) == pointE7(pts[len(pts)-1])
}

// closedByReference is b6's own notion of a closed path (Tags.ClosedPath):
// the first and the last element refer to the same point feature. A path
// whose two ends are different points that happen to share a location is an
// open path to b6 and is not judged as a loop (false alarm found by vp check
// after corners were moved exactly onto other vertices).
func closedByReference(f b6.Feature) bool {
	p, ok := f.(b6.PhysicalFeature)
	if !ok {
		return false
	}
	closed := false
	safe(func() string {
		n := p.GeometryLen()
		if n < 2 {
			return ""
		}
		first, last := p.Reference(0), p.Reference(n-1)
		closed = first != nil && last != nil && first.Source().IsValid() && first.Source() == last.Source()
		return ""
	})
	return closed
}

func validateFeature(w b6.World, f b6.Feature) string {
	id := f.FeatureID()
	switch id.Type {
	case b6.FeatureTypePath:
		pts, prob := pathPointsOf(f)
		if prob != "" {
			return prob
		}
		if len(pts) < 2 {
			return fmt.Sprintf("%s: path with %d point(s)", id, len(pts))
		}
		if isClosed(pts) && closedByReference(f) {
			if prob := ringProblem(pts); prob != "" {
				return fmt.Sprintf("%s: closed path with %s", id, prob)
			}
		}
	case b6.FeatureTypeArea:
		a, ok := f.(b6.AreaFeature)
		if !ok {
			return fmt.Sprintf("%s: not an area feature (%T)", id, f)
		}
		for i := 0; i < a.Len(); i++ {
			var paths []b6.PhysicalFeature
			msg := safe(func() string { paths = a.Feature(i); return "" })
			if msg != "" {
				return fmt.Sprintf("%s: polygon %d refers to a path that cannot be resolved (%s)", id, i, msg)
			}
			for _, p := range paths {
				if p == nil {
					return fmt.Sprintf("%s: polygon %d refers to a missing path", id, i)
				}
				if !w.HasFeatureWithID(p.FeatureID()) {
					return fmt.Sprintf("%s: polygon %d refers to %s, which the world does not have", id, i, p.FeatureID())
				}
				// judge the path the world has under that id now, not only the
				// object the area hands out (which may be a stale copy)
				var cur b6.Feature = p
				if f := w.FindFeatureByID(p.FeatureID()); f != nil {
					cur = f
				}
				pts, prob := pathPointsOf(cur)
				if prob == "" {
					if _, prob2 := pathPointsOf(p); prob2 != "" {
						prob = prob2
					}
				}
				if prob != "" {
					return fmt.Sprintf("%s: polygon %d: %s", id, i, prob)
				}
				if len(pts) < 3 {
					return fmt.Sprintf("%s: polygon %d stands on %s, which has %d point(s)", id, i, p.FeatureID(), len(pts))
				}
				if pointE7(pts[0]) != pointE7(pts[len(pts)-1]) {
					return fmt.Sprintf("%s: polygon %d stands on %s, which is not closed", id, i, p.FeatureID())
				}
				// whatever makes the path closed for the area (the same
				// point at both ends, or two points at one position), the
				// ring the area is built from must be a proper one
				if len(pts) >= 4 {
					if prob := ringProblem(pts); prob != "" {
						return fmt.Sprintf("%s: polygon %d stands on %s, a ring with %s", id, i, p.FeatureID(), prob)
					}
				}
			}
		}
	}
	return ""
}

func runC37(rc *RC) {
	switch rc.Pick(3, 2, 3) {
	case 0:
		c37Build(rc, false)
	case 1:
		c37Build(rc, true)
	default:
		c37History(rc)
	}
}

// invalidSource returns a feature list with invalid features mixed in, in a
// tape-chosen order (areas before or after their paths).
func invalidSource(rc *RC, g *cityGen, forCompact bool) ([]*fspec, int) {
	g.noBaseCollections = forCompact
	specs := g.baseCity(!forCompact)
	if !forCompact && rc.Pct(50) {
		// the in-memory builder takes areas that mix representations; one
		// valid, and one whose path-based polygon stands on a missing path
		g.mixedAreas = true
		for k := 0; k < 2; k++ {
			if aid, ok := g.freeID(b6.FeatureTypeArea); ok {
				a := g.areaSpec(aid)
				if k == 1 && len(a.AreaPaths) > 1 {
					for i := range a.AreaPaths {
						if a.AreaPaths[i] != nil {
							a.AreaPaths[i] = []b6.FeatureID{{Type: b6.FeatureTypePath, Namespace: nsB, Value: 998}}
							rc.Notef("invalid input: %s (mixed area, path polygon over a missing path)", a)
						}
					}
				}
				g.specs[aid] = a
				specs = append(specs, a)
			}
		}
		g.mixedAreas = false
	}
	nBad := rc.Range(1, 5)
	bad := 0
	for k := 0; k < nBad; k++ {
		switch rc.Draw(3) {
		case 0:
			if id, ok := g.freeID(b6.FeatureTypePath); ok {
				s, why := g.invalidPath(id)
				rc.Notef("invalid input: %s (%s)", s, why)
				g.specs[id] = s // occupies the id
				specs = append(specs, s)
				bad++
				// sometimes an area over the invalid path as well
				if aid, ok := g.freeID(b6.FeatureTypeArea); ok && rc.Pct(50) {
					a := &fspec{ID: aid, AreaPaths: [][]b6.FeatureID{{id}}, AreaRings: [][]int{nil}}
					rc.Notef("invalid input: %s (area over the invalid path)", a)
					g.specs[aid] = a
					specs = append(specs, a)
					bad++
				}
			}
		case 1:
			if aid, ok := g.freeID(b6.FeatureTypeArea); ok {
				target := b6.FeatureID{Type: b6.FeatureTypePath, Namespace: nsB, Value: 999}
				why := "area over a missing path"
				for _, pid := range g.sortedIDs(b6.FeatureTypePath) {
					ps := g.specs[pid]
					if n := len(ps.Path); n >= 2 && ps.Path[0] != ps.Path[n-1] && rc.Pct(50) {
						target, why = pid, "area over an open path"
						break
					}
				}
				a := &fspec{ID: aid, AreaPaths: [][]b6.FeatureID{{target}}, AreaRings: [][]int{nil}}
				rc.Notef("invalid input: %s (%s)", a, why)
				g.specs[aid] = a
				specs = append(specs, a)
				bad++
			}
		default:
			if id, ok := g.freeID(b6.FeatureTypePath); ok {
				// a two-point "closed" path with an area on it
				p := rc.Draw(maxPoints)
				s := &fspec{ID: id, Path: []pathMember{{Point: p}, {Point: (p + 1) % maxPoints}, {Point: p}}}
				rc.Notef("invalid input: %s (degenerate ring)", s)
				g.specs[id] = s
				specs = append(specs, s)
				bad++
				if aid, ok := g.freeID(b6.FeatureTypeArea); ok {
					a := &fspec{ID: aid, AreaPaths: [][]b6.FeatureID{{id}}, AreaRings: [][]int{nil}}
					g.specs[aid] = a
					specs = append(specs, a)
					bad++
				}
			}
		}
	}
	if !forCompact && rc.Pct(25) {
		// an area over a ring that is closed by position only (a second
		// point at its first vertex's position), clockwise most of the time
		for _, o := range g.twinRingOps(rc.Pct(75)) {
			rc.Notef("input: %s %s", o.Spec, o.Invalid)
			g.specs[o.Spec.ID] = o.Spec
			specs = append(specs, o.Spec)
			if o.Invalid != "" {
				bad++
			}
		}
	}
	// order: shuffle so that areas may come before their paths
	if rc.Pct(70) {
		for i := len(specs) - 1; i > 0; i-- {
			j := rc.Draw(i + 1)
			specs[i], specs[j] = specs[j], specs[i]
		}
	}
	return specs, bad
}

func c37Build(rc *RC, compactBuild bool) {
	g := newCityGen(rc)
	specs, bad := invalidSource(rc, g, compactBuild)
	ids := universe()
	var w b6.World
	var err error
	if compactBuild {
		goroutines := rc.Range(1, 3)
		simrt.SetKnob("NumCPU", rc.Range(1, 4))
		name := "C37/compact.BuildInMemory"
		rc.Phase(name)
		rc.Knob("goroutines", goroutines)
		rc.Case("compact", goroutines, fmt.Sprint(specs))
		var data []byte
		if !rc.Guard(name+"/panic", func() {
			data, err = compact.BuildInMemory(ingest.MemoryFeatureSource(buildAll(specs)), &compact.Options{Goroutines: goroutines, PointsScratchOutputType: compact.OutputTypeMemory})
		}) {
			return
		}
		if err != nil {
			rc.Notef("build failed: %v (allowed: only 'present => valid' is asserted)", err)
			rc.SetNontrivial(bad > 0)
			return
		}
		var cw *compact.World
		cw, err = compact.NewWorldFromData(data)
		if err != nil {
			rc.Fail(name+"/unreadable", "NewWorldFromData on the builder's own output: %v", err)
			return
		}
		w = cw
		rc.Probe("compact-build-ok")
		if p := validateWorld(w, ids); p != "" {
			rc.Fail(name+"/invalid-feature-present", "the built world (goroutines=%d) contains invalid features:\n%s", goroutines, p)
		}
	} else {
		cores := []int{1, 2, 3, 4, 8}[rc.Draw(5)]
		name := "C37/ingest.NewWorldFromSource"
		rc.Phase(name)
		rc.Knob("cores", cores)
		rc.Case("basic", cores, fmt.Sprint(specs))
		if !rc.Guard(name+"/panic", func() {
			w, err = ingest.NewWorldFromSource(ingest.MemoryFeatureSource(buildAll(specs)), &ingest.BuildOptions{Cores: cores})
		}) {
			return
		}
		if err != nil {
			rc.Notef("build failed: %v", err)
			rc.SetNontrivial(bad > 0)
			return
		}
		rc.Probe("basic-build-ok")
		if p := validateWorld(w, ids); p != "" {
			rc.Fail(name+"/invalid-feature-present", "the built world (cores=%d) contains invalid features:\n%s", cores, p)
		}
	}
	if bad > 0 {
		rc.Fired("invalid-input")
	}
	rc.Configured("invalid-input")
	rc.SetNontrivial(bad > 0)
}

func c37History(rc *RC) {
	g := newCityGen(rc)
	kind := rc.Pick(3, 3, 3, 1, 1) // not over a compact base: its one-level FindReferences is C02's subject
	rc.Knob("world-kind", kind)
	base := g.baseCity(true)
	w, err := makeMutableWorld(rc, g, kind, base)
	g.mixedAreas = true // only for features added from here on
	if err != nil {
		rc.Fail("HARNESS/fixture", "%v", err)
		return
	}
	name := "C37/" + worldKindNames[kind]
	rc.Phase(name)
	ids := universe()
	steps := rc.Range(2, 24)
	mix := opMix{invalidPct: 40, richTypes: true, geometryPct: 75}
	offered := 0
	var queue []op
	for i := 0; i < steps && !rc.Failed(); i++ {
		if kind == wkOverlayWithSnapshot && rc.Pct(10) {
			w.(*ingest.MutableOverlayWorld).Snapshot()
			rc.Notef("#%d Snapshot()", i)
		}
		if len(queue) == 0 && rc.Pct(6) {
			queue = g.twinRingOps(rc.Pct(70))
		}
		o := g.genOp(mix)
		if len(queue) > 0 {
			o, queue = queue[0], queue[1:]
		}
		rc.Case(o.String())
		if o.Invalid != "" {
			offered++
			rc.Configured("reject")
		}
		var err error
		if !rc.Guard(name+"/panic", func() { err = o.apply(w) }) {
			return
		}
		rc.Notef("#%d %s -> %v", i, o, err)
		if err == nil && (o.Kind == "add" || g.specs[o.ID] != nil) {
			g.commit(o)
		}
		if err != nil && o.Invalid != "" {
			rc.Fired("reject")
		}
		if p := validateWorld(w, ids); p != "" {
			rc.Fail(name+"/invalid-feature-present", "after %s (returned %v) the world contains invalid features:\n%s", o, err, p)
			return
		}
	}
	rc.SetNontrivial(offered > 0)
}
