package harness

import (
	"diagonal.works/b6"
)

// The touch pass.
//
// The race detector models sync.Pool's Put/Get as release/acquire, and fmt
// keeps its printer state in a sync.Pool: two tasks that format strings get
// a happens-before edge between them that the program under test never asked
// for. Under the serialising scheduler the tasks take turns on the same Ps
// and share one pooled printer, so "A formats something after its access, B
// formats something before its access" - the normal shape of observation
// code - hides the race between the two accesses. (Found with seeded change
// C35-d: two readers appended to the same shared tag slice in 30 of 600 runs
// and the detector reported none of them.)
//
// So every reader task first runs its queries through the functions below,
// which call the same b6 read API as the observation code and look at every
// value it returns, but format nothing and keep nothing: no fmt, no pool, no
// edge. The formatted pass (the one whose answers are compared) follows.
// Nothing here may allocate through a pooled facility: no fmt, no strconv
// helpers that use one, no FeatureID.String().

// touched defeats dead-code elimination of the reads below.
var touched int

// (harness bookkeeping shared by all reader tasks: invisible to the detector)
//
//go:noinline
//go:norace
func use(n int) { touched += n }

func touchTags(t b6.Taggable) {
	tags := t.AllTags()
	n := 0
	for i := range tags {
		n += len(tags[i].Key)
		if tags[i].Value.AnyExpression != nil {
			n++
		}
	}
	if g := t.Get("name"); g.IsValid() {
		n += len(g.Key)
	}
	use(n)
}

// touchFeature reads what dumpGeometry and tagsString read.
func touchFeature(f b6.Feature) {
	if f == nil {
		return
	}
	use(int(f.FeatureID().Value))
	touchTags(f)
	switch f := f.(type) {
	case b6.AreaFeature:
		for i := 0; i < f.Len(); i++ {
			if paths := f.Feature(i); paths != nil {
				for _, p := range paths {
					if p != nil {
						use(p.GeometryLen())
					}
				}
			}
			if poly := f.Polygon(i); poly != nil {
				for l := 0; l < poly.NumLoops(); l++ {
					use(len(poly.Loop(l).Vertices()))
				}
			}
		}
		if mp := f.MultiPolygon(); mp != nil {
			use(len(mp))
		}
	case b6.RelationFeature:
		for i := 0; i < f.Len(); i++ {
			m := f.Member(i)
			use(int(m.ID.Value) + len(m.Role))
		}
	case b6.CollectionFeature:
		it := f.BeginUntyped()
		for n := 0; n < 64; n++ {
			ok, err := it.Next()
			if !ok || err != nil {
				break
			}
			if it.Key() != nil && it.Value() != nil {
				use(1)
			}
		}
	case b6.PhysicalFeature:
		n := f.GeometryLen()
		for i := 0; i < n && i < 64; i++ {
			p := f.PointAt(i)
			use(int(p.X * 16))
			if r := f.Reference(i); r != nil {
				use(int(r.Source().Value))
			}
		}
		if f.GeometryType() == b6.GeometryTypePath && n >= 2 {
			if pl := f.Polyline(); pl != nil {
				use(len(*pl))
			}
		}
	}
}

func touchFeatures(fs b6.Features) {
	for n := 0; fs.Next() && n < 500; n++ {
		use(int(fs.FeatureID().Value))
		touchFeature(fs.Feature())
	}
}

// touch runs one reader query without formatting anything. A panic is
// swallowed here: the formatted pass will meet it again and report it.
func (q c35Query) touch(w b6.World) {
	defer func() { _ = recover() }()
	switch q.kind {
	case "feature":
		use(map[bool]int{false: 0, true: 1}[w.HasFeatureWithID(q.id)])
		touchFeature(w.FindFeatureByID(q.id))
		if ll, err := w.FindLocationByID(q.id); err == nil {
			use(int(ll.Lat * 16))
		}
	case "refs":
		touchFeatures(w.FindReferences(q.id))
		rs := w.FindRelationsByFeature(q.id)
		for n := 0; rs.Next() && n < 500; n++ {
			touchFeature(rs.Feature())
		}
		cs := w.FindCollectionsByFeature(q.id)
		for n := 0; cs.Next() && n < 500; n++ {
			touchFeature(cs.Feature())
		}
		as := w.FindAreasByPoint(q.id)
		for n := 0; as.Next() && n < 500; n++ {
			touchFeature(as.Feature())
		}
	case "trav":
		ss := w.Traverse(q.id)
		for n := 0; ss.Next() && n < 500; n++ {
			s := ss.Segment()
			use(s.First + s.Last)
			touchFeature(s.Feature)
		}
	case "find":
		touchFeatures(w.FindFeatures(obsQueries()[q.q]))
	case "each":
		w.EachFeature(func(f b6.Feature, goroutine int) error {
			touchEach(f)
			return nil
		}, &b6.EachFeatureOptions{Goroutines: q.g})
	}
}

// touchEach runs on several tasks of one enumeration: it must not write
// harness state (use() does), so it only reads.
func touchEach(f b6.Feature) {
	tags := f.AllTags()
	for i := range tags {
		if len(tags[i].Key) > 1<<30 {
			panic("unreachable")
		}
	}
}
