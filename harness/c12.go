package harness

import (
	"strings"

	"diagonal.works/b6"
	"diagonal.works/b6/ingest"
)

// C12: a mutable overlay world refines a per-feature map under any edits.

func init() {
	register(&Scenario{
		Prop: "C12",
		Run:  runC12,
		Real: []string{
			"ingest.MutableOverlayWorld over a basic or compact base world, with 0-2 snapshot layers",
			"its AddFeature / AddTag / RemoveTag, copy-on-searchable-tag, ModifiedTags overlay, search index and EachFeature (goroutines 1-3 under the simulated scheduler)",
		},
		Stubs: []string{"per-feature map model (harness): id -> ordered key/value tags"},
		Assumptions: []string{
			"tag values are compared as strings (plain-tag edits of base features are stored and read back as strings by design)",
			"tag search is compared for searchable keys only (#key=value, #key, @key); plain keys are by design not indexed",
			"search results are compared as id lists in ascending id order (the order the search contract promises)",
			"fault-free configuration by construction: only operations the world must accept",
		},
		Rule:             "one case = (base kind, snapshot layers, base city, history of <=40 valid operations); the model is compared after every operation; non-trivial = history has >=3 operations touching >=2 features; distinct = distinct hash of the history",
		NontrivialByCase: true,
	})
}

func runC12(rc *RC) {
	g := newCityGen(rc)
	bk := rc.Draw(bkCount)
	rc.Knob("base-kind", bk)
	g.noBaseCollections = bk == bkCompact
	base := g.baseCity(true)
	bw, err := newBaseWorld(bk, base)
	if err != nil {
		rc.Fail("HARNESS/fixture", "%v", err)
		return
	}
	w := ingest.NewMutableOverlayWorld(bw)
	name := "C12/overlay over " + baseKindNames[bk]
	rc.Phase(name)
	ids := universe()
	steps := rc.Range(1, 40)
	snapAt := map[int]bool{}
	for k := rc.Draw(3); k > 0; k-- {
		snapAt[rc.Draw(steps)] = true
	}
	rc.Knob("snapshots", len(snapAt))
	eachG := rc.Range(1, 3)
	mix := opMix{noInvalid: true, richTypes: true, geometryPct: 30}
	touched := map[b6.FeatureID]bool{}
	sections := secs("has", "tags", "find")
	check := func(step int, what string) bool {
		got := Observe(w, ids, obsOpts{sections: sections})
		// enumeration under the scheduler (EachFeature starts goroutines)
		var each string
		rc.Sim(name, func() { each = safe(func() string { return eachTags(w, eachG) }) })
		if rc.Failed() {
			return false
		}
		got["eachtags"] = each
		for _, q := range obsQueries() {
			k := "find/" + q.String()
			if !isTagQuery(q) {
				delete(got, k)
			} else if i := strings.Index(got[k], "content="); i >= 0 {
				got[k] = got[k][:i] // the model predicts the id list only
			}
		}
		// the features a tag search hands out must carry the same tags as
		// the same features looked up by id (which are compared with the map
		// below): the model predicts ids only, this ties the content to them
		for _, q := range obsQueries() {
			if !isTagQuery(q) {
				continue
			}
			bad := safe(func() string {
				fs := w.FindFeatures(q)
				for n := 0; fs.Next() && n < 500; n++ {
					f := fs.Feature()
					if f == nil {
						continue
					}
					byID := w.FindFeatureByID(fs.FeatureID())
					if byID == nil {
						return fs.FeatureID().String() + " is found by search but not by id"
					}
					if a, b := tagsString(f), tagsString(byID); a != b {
						return fs.FeatureID().String() + " has tags " + a + " as a search result and " + b + " when looked up by id"
					}
				}
				return ""
			})
			if bad != "" {
				rc.Fail(name+"/differs-from-map:find-content", "after %s, searching %s: %s", what, q, bad)
				return false
			}
		}
		want := modelObs(g, ids)
		if d := want.Diff(got, 1); len(d) > 0 {
			cls := name + "/differs-from-map:" + section(d[0])
			if step < 0 {
				cls = "HARNESS/model-disagrees-with-untouched-base:" + baseKindNames[bk]
			}
			rc.Fail(cls, "after %s the world differs from the per-feature map:\n%s", what, want.DiffString(got, "map  ", "world"))
			return false
		}
		return true
	}
	if !check(-1, "no operation at all") {
		return
	}
	for i := 0; i < steps; i++ {
		if snapAt[i] {
			if !rc.Guard(name+"/panic", func() { w.Snapshot() }) {
				return
			}
			rc.Notef("#%d Snapshot()", i)
		}
		o := g.genOp(mix)
		rc.Case(o.String())
		var err error
		if !rc.Guard(name+"/panic", func() { err = o.apply(w) }) {
			rc.Notef("#%d %s -> PANIC", i, o)
			return
		}
		rc.Notef("#%d %s -> %v", i, o, err)
		exists := g.specs[o.ID] != nil
		switch {
		case o.Kind == "add":
			if err != nil {
				rc.Fail(name+"/valid-add-rejected", "%s is valid but was rejected: %v", o, err)
				return
			}
			g.commit(o)
			touched[o.Spec.ID] = true
		case o.Kind == "addtag":
			if exists != (err == nil) {
				rc.Fail(name+"/addtag-error-mismatch", "%s: feature exists=%v but error=%v", o, exists, err)
				return
			}
			if err == nil {
				g.commit(o)
				touched[o.ID] = true
			}
		case o.Kind == "removetag":
			if exists {
				if err != nil {
					rc.Fail(name+"/removetag-error", "%s on an existing feature failed: %v", o, err)
					return
				}
				g.commit(o)
				touched[o.ID] = true
			}
		}
		if !check(i, o.String()) {
			return
		}
	}
	rc.SetNontrivial(steps >= 3 && len(touched) >= 2)
}
