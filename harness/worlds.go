package harness

import (
	"fmt"

	"diagonal.works/b6"
	"diagonal.works/b6/ingest"
	"diagonal.works/b6/ingest/compact"
	"verif/simrt"
)

func init() {
	// The compact builder allocates goroutines x 2..4 buffers of
	// maxEncodedFeatureSize (78 MB) per pass; no generated feature encodes to
	// more than a few hundred bytes. 256 KB keeps fixture builds fast. This
	// is a deviation from the shipped constant, listed in the evidence.
	simrt.SetStaticKnob("maxEncodedFeatureSize", 1<<18)
}

// newCompactWorld builds a compact (binary index) world in memory.
func newCompactWorld(specs []*fspec, goroutines int) (b6.World, error) {
	data, err := compact.BuildInMemory(ingest.MemoryFeatureSource(buildAll(specs)), &compact.Options{Goroutines: goroutines, PointsScratchOutputType: compact.OutputTypeMemory})
	if err != nil {
		return nil, fmt.Errorf("compact.BuildInMemory: %v", err)
	}
	w, err := compact.NewWorldFromData(data)
	if err != nil {
		return nil, fmt.Errorf("compact.NewWorldFromData: %v", err)
	}
	return w, nil
}

const (
	bkBasic = iota
	bkCompact
	bkStaticOverlay // ingest.NewOverlayWorld(points re-declared in an upper basic world, basic world)
	bkFrozenMutable // a BasicMutableWorld that is no longer edited
	bkFrozenOverlay // a MutableOverlayWorld (some features re-added into its overlay) that is no longer edited
	bkCount
)

var baseKindNames = []string{"basic base", "compact base", "OverlayWorld base", "BasicMutableWorld base", "MutableOverlayWorld base"}

// newBaseWorld builds a world holding exactly specs, in one of the shapes a
// mutable overlay can be laid over.
func newBaseWorld(kind int, specs []*fspec) (b6.World, error) {
	switch kind {
	case bkCompact:
		return newCompactWorld(specs, 1)
	case bkStaticOverlay:
		lower, err := newBasicWorld(specs)
		if err != nil {
			return nil, err
		}
		var upper []*fspec
		for i, s := range specs {
			if s.ID.Type == b6.FeatureTypePoint && i%3 == 0 {
				upper = append(upper, s)
			}
		}
		uw, err := newBasicWorld(upper)
		if err != nil {
			return nil, err
		}
		return ingest.NewOverlayWorld(uw, lower), nil
	case bkFrozenMutable:
		m := ingest.NewBasicMutableWorld()
		for _, f := range buildAll(specs) {
			if err := m.AddFeature(f); err != nil {
				return nil, fmt.Errorf("BasicMutableWorld.AddFeature(%s): %v", f.FeatureID(), err)
			}
		}
		return m, nil
	case bkFrozenOverlay:
		lower, err := newBasicWorld(specs)
		if err != nil {
			return nil, err
		}
		o := ingest.NewMutableOverlayWorld(lower)
		for i, s := range specs {
			if i%4 == 1 {
				if err := o.AddFeature(s.build()); err != nil {
					return nil, fmt.Errorf("MutableOverlayWorld.AddFeature(%s): %v", s.ID, err)
				}
			}
		}
		return o, nil
	}
	return newBasicWorld(specs)
}
