package harness

import (
	"fmt"

	"diagonal.works/b6"
	"diagonal.works/b6/ingest"
	"diagonal.works/b6/ingest/compact"
	"verif/simrt"
)

func init() {
	// The compact builder allocates goroutines x 2..4 buffers of
	// maxEncodedFeatureSize (78 MB) per pass; no generated feature encodes to
	// more than a few hundred bytes. 256 KB keeps fixture builds fast. This
	// is a deviation from the shipped constant, listed in the evidence.
	simrt.SetStaticKnob("maxEncodedFeatureSize", 1<<18)
}

// newCompactWorld builds a compact (binary index) world in memory.
func newCompactWorld(specs []*fspec, goroutines int) (b6.World, error) {
	data, err := compact.BuildInMemory(ingest.MemoryFeatureSource(buildAll(specs)), &compact.Options{Goroutines: goroutines, PointsScratchOutputType: compact.OutputTypeMemory})
	if err != nil {
		return nil, fmt.Errorf("compact.BuildInMemory: %v", err)
	}
	w, err := compact.NewWorldFromData(data)
	if err != nil {
		return nil, fmt.Errorf("compact.NewWorldFromData: %v", err)
	}
	return w, nil
}

const (
	bkBasic = iota
	bkCompact
	bkCount
)

var baseKindNames = []string{"basic base", "compact base"}

func newBaseWorld(kind int, specs []*fspec) (b6.World, error) {
	if kind == bkCompact {
		return newCompactWorld(specs, 1)
	}
	return newBasicWorld(specs)
}
