package harness

import (
	"fmt"
	"sort"
	"strings"

	"diagonal.works/b6"
	"diagonal.works/b6/ingest"
)

// C15: reference queries return the current referrers, once each, and
// always terminate - also when references form cycles.

func init() {
	register(&Scenario{
		Prop: "C15",
		Run:  runC15,
		Real: []string{
			"ingest.FeatureReferencesByID (AddFeature / RemoveFeature / findReferences), basicWorld, BasicMutableWorld, MutableOverlayWorld.FindReferences (base + overlay union) over a basic base",
			"FindReferences, FindRelationsByFeature, FindCollectionsByFeature, FindAreasByPoint",
		},
		Stubs: []string{"transitive-referrer model (harness): fixpoint over a reverse scan of the current features"},
		Assumptions: []string{
			"'the referencing chain the query defines' is read off FeatureReferencesByID.FindReferences: X references Y iff Y is in X.References() (path -> its points, area -> its path ids, relation -> its members, collection -> its feature-id keys); the query returns the transitive referrers, filtered by the requested types",
			"the compact world is out of scope: it answers FindReferences by a different, one-level rule and documents no contract to compare against",
			"runaway recursion is fatal in Go (stack overflow is not a panic): the worker runs with a 64 MB stack cap and a crash is attributed to the run whose 'R n' line preceded it",
		},
		Rule:             "one case = (world kind, reference graph over points/paths/areas/relations/collections incl. self-references and 2-/3-cycles, edit history that adds or replaces referencing features); checked after every operation; non-trivial = graph has >=1 relation or collection referrer and >=3 operations; distinct = distinct hash of the history",
		NontrivialByCase: true,
	})
}

// directRefs lists what a model feature references.
func directRefs(s *fspec) []b6.FeatureID {
	var out []b6.FeatureID
	switch s.ID.Type {
	case b6.FeatureTypePath:
		for _, m := range s.Path {
			if m.Point >= 0 {
				out = append(out, pointID(m.Point))
			}
		}
	case b6.FeatureTypeArea:
		for _, ps := range s.AreaPaths {
			out = append(out, ps...)
		}
	case b6.FeatureTypeRelation:
		for _, m := range s.Members {
			out = append(out, m.ID)
		}
	case b6.FeatureTypeCollection:
		for _, k := range s.CKeys {
			if id, ok := k.(b6.FeatureID); ok {
				out = append(out, id)
			}
		}
	}
	return out
}

// modelReferrers computes the transitive referrers of id among the current
// features, by fixpoint.
func modelReferrers(g *cityGen, id b6.FeatureID, types ...b6.FeatureType) string {
	reached := map[b6.FeatureID]bool{}
	frontier := []b6.FeatureID{id}
	all := g.sortedIDs(b6.FeatureTypeInvalid)
	for len(frontier) > 0 {
		target := frontier[0]
		frontier = frontier[1:]
		for _, fid := range all {
			if reached[fid] {
				continue
			}
			for _, r := range directRefs(g.specs[fid]) {
				if r == target {
					reached[fid] = true
					frontier = append(frontier, fid)
					break
				}
			}
		}
	}
	var ids []b6.FeatureID
	for fid := range reached {
		if len(types) > 0 {
			ok := false
			for _, t := range types {
				if fid.Type == t {
					ok = true
				}
			}
			if !ok {
				continue
			}
		}
		ids = append(ids, fid)
	}
	sort.Slice(ids, func(i, j int) bool { return ids[i].Less(ids[j]) })
	var b strings.Builder
	for _, x := range ids {
		b.WriteString(x.String())
		b.WriteString(" ")
	}
	return b.String()
}

func modelRefObs(g *cityGen, ids []b6.FeatureID) Obs {
	out := Obs{}
	for _, id := range ids {
		k := id.String()
		out["refs/"+k] = modelReferrers(g, id)
		out["refs-paths/"+k] = modelReferrers(g, id, b6.FeatureTypePath)
		out["rels/"+k] = modelReferrers(g, id, b6.FeatureTypeRelation)
		out["cols/"+k] = modelReferrers(g, id, b6.FeatureTypeCollection)
		if id.Type == b6.FeatureTypePoint {
			out["areas/"+k] = modelReferrers(g, id, b6.FeatureTypeArea)
		}
	}
	return out
}

func runC15(rc *RC) {
	g := newCityGen(rc)
	kind := rc.Draw(3) // 0 basicWorld (immutable, built), 1 BasicMutableWorld, 2 MutableOverlayWorld over basic
	rc.Knob("world-kind", kind)
	names := []string{"basicWorld", "BasicMutableWorld", "MutableOverlayWorld(basic base)"}
	name := "C15/" + names[kind]
	rc.Phase(name)
	ids := universe()
	refSections := secs("refs", "rels", "cols", "areas")
	check := func(w b6.World, what string) bool {
		got := Observe(w, ids, obsOpts{sections: refSections})
		want := modelRefObs(g, ids)
		if d := want.Diff(got, 1); len(d) > 0 {
			rc.Fail(name+"/wrong-referrers:"+section(d[0]), "after %s the reference queries differ from the current referrers:\n%s", what, want.DiffString(got, "current referrers", "world            "))
			return false
		}
		return true
	}
	base := g.baseCity(false)
	// a richer reference graph in the base: relations (possibly cyclic) and collections
	nr := rc.Range(1, 4)
	for i := 0; i < nr; i++ {
		s := g.relationSpec(relID(i), true)
		g.specs[s.ID] = s
		base = append(base, s)
	}
	nc := rc.Range(0, 2)
	for i := 0; i < nc; i++ {
		s := g.collectionSpec(colID(i))
		if rc.Pct(40) {
			s.CKeys[0] = relID(rc.Draw(maxRels)) // collection over a relation: longer chains
		}
		g.specs[s.ID] = s
		base = append(base, s)
	}
	// 20% of runs: a two-relation cycle whose members also share a point,
	// edited member by member later on (reference lists that are shared
	// between referrers on a cycle, shrinking and growing step by step)
	gadget := kind != 0 && nr >= 2 && rc.Pct(25)
	var gadgetPool []relMember
	if gadget {
		x := pointID(rc.Draw(maxPoints))
		a, b := g.specs[relID(0)], g.specs[relID(1)]
		a.Members = []relMember{{ID: x, Role: "stop"}, {ID: relID(1), Role: "outer"}}
		b.Members = []relMember{{ID: x, Role: "stop"}, {ID: relID(0), Role: ""}}
		if rc.Pct(40) {
			b.Members = append(b.Members, relMember{ID: pointID(rc.Draw(maxPoints)), Role: ""})
		}
		gadgetPool = []relMember{{ID: x, Role: "stop"}, {ID: relID(0), Role: ""}, {ID: relID(1), Role: "outer"}, {ID: pointID(rc.Draw(maxPoints)), Role: ""}}
		rc.Probe("relation-cycle-gadget")
	}
	rc.Case("base", len(base), nr, nc, gadget)
	for _, s := range base {
		if s.ID.Type == b6.FeatureTypeRelation || s.ID.Type == b6.FeatureTypeCollection {
			rc.Notef("base: %s", s)
		}
	}
	var w b6.World
	var mw ingest.MutableWorld
	var err error
	switch kind {
	case 0:
		w, err = newBasicWorld(base)
	case 1:
		mw, err = makeMutableWorld(rc, g, wkBasicMutable, base)
		w = mw
	case 2:
		mw, err = makeMutableWorld(rc, g, wkOverlayOverBasic, base)
		w = mw
	}
	if err != nil {
		rc.Fail("HARNESS/fixture", "%v", err)
		return
	}
	g.mixedAreas = true // only for features added from here on
	if !check(w, "building the world") {
		return
	}
	steps := 0
	if mw != nil {
		steps = rc.Range(1, 18)
	}
	// some operations are invalid and must be rejected: the reference
	// queries have to answer from the current features afterwards as well
	mix := opMix{invalidPct: 20, richTypes: true, cycles: true, geometryPct: 85}
	for i := 0; i < steps; i++ {
		o := g.genOp(mix)
		if gadget && rc.Pct(75) {
			// drop or add one member of one of the two relations on the cycle
			sp := g.specs[relID(rc.Draw(2))].clone()
			if len(sp.Members) > 0 && rc.Pct(60) {
				k := rc.Draw(len(sp.Members))
				sp.Members = append(sp.Members[:k:k], sp.Members[k+1:]...)
			} else {
				sp.Members = append(sp.Members, gadgetPool[rc.Draw(len(gadgetPool))])
			}
			o = op{Kind: "add", Spec: sp}
		}
		rc.Case(o.String())
		var err error
		if !rc.Guard(name+"/panic", func() { err = o.apply(mw) }) {
			return
		}
		rc.Notef("#%d %s -> %v", i, o, err)
		if err != nil {
			// rejected (whether or not the generator expected it: once a
			// point has been moved, a ring the generator believes valid can
			// be clockwise): nothing may have changed
			if o.Invalid != "" {
				rc.Fired("reject")
			}
			if !check(w, "the rejected "+o.String()) {
				return
			}
			continue
		}
		if o.Kind == "add" || g.specs[o.ID] != nil {
			g.commit(o)
		}
		if !check(w, o.String()) {
			return
		}
	}
	cyc := 0
	for _, id := range g.sortedIDs(b6.FeatureTypeRelation) {
		if strings.Contains(modelReferrers(g, id, b6.FeatureTypeRelation), id.String()+" ") {
			cyc++
		}
	}
	if cyc > 0 {
		rc.Probe("cycle-in-references")
	}
	rc.SetNontrivial(steps+len(base) >= 3 && (nr+nc) >= 1)
	_ = fmt.Sprint
}
