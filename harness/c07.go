package harness

import (
	"fmt"
	"sort"

	"diagonal.works/b6/search"
)

// C07: the AVL tree index stays a balanced sorted set across any edit
// history, and open iterators survive inserts and deletes.

func init() {
	register(&Scenario{
		Prop: "C07",
		Run:  runC07,
		Real: []string{"search.TreeIndex (Add / Remove / Begin / Tokens), treeList insert, delete with successor grafting, rotations, treeListIterator Next / Advance with the deleted-node repair path"},
		Stubs: []string{
			"intValues (harness): search.Values over small ints",
			"sorted-set model per token (harness)",
			"hook search.TreeIndex.VerifValidate (build tag verif): checks BST order, parent pointers, stored balance == real height difference in [-1,1]",
		},
		Assumptions: []string{
			"one mutator and 1-3 iterator holders interleave at operation granularity (the tape decides who moves next); the index makes no claim about mutation concurrent with a call",
			"an iterator must return a value present throughout its life unless an Advance(k) with k above it legitimately skipped it; values inserted after the iterator was opened may or may not be returned",
		},
		Rule:             "one case = history of Add/Remove over values 0..31 and 1-3 tokens interleaved with Next/Advance of 1-3 open iterators; non-trivial = >=8 mutations while an iterator was open; distinct = distinct hash of the history",
		NontrivialByCase: true,
	})
}

type intValues struct{}

func (intValues) Compare(a, b search.Value) search.Comparison {
	x, y := a.(int), b.(int)
	switch {
	case x < y:
		return search.ComparisonLess
	case x > y:
		return search.ComparisonGreater
	}
	return search.ComparisonEqual
}

func (intValues) CompareKey(v search.Value, k search.Key) search.Comparison {
	x, y := v.(int), k.(int)
	switch {
	case x < y:
		return search.ComparisonLess
	case x > y:
		return search.ComparisonGreater
	}
	return search.ComparisonEqual
}

func (intValues) Key(v search.Value) search.Key { return v }

type c07Holder struct {
	token     string
	it        search.Iterator
	last      int          // last returned value, -1 before any
	floor     int          // values below need not be returned (Advance targets)
	alive     map[int]bool // present since the iterator was opened
	missed    map[int]bool // candidates: passed over while present
	exhausted bool
	steps     int
}

func runC07(rc *RC) {
	const name = "C07/TreeIndex"
	rc.Phase(name)
	idx := search.NewTreeIndex(intValues{})
	tokens := []string{"a", "b", "c"}[:rc.Range(1, 3)]
	maxV := []int{8, 16, 32}[rc.Draw(3)]
	model := map[string]map[int]bool{}
	known := map[string]bool{}
	var holders []*c07Holder
	steps := rc.Range(4, 120)
	mutationsWhileOpen := 0

	sortedSet := func(tok string) []int {
		var out []int
		for v := range model[tok] {
			out = append(out, v)
		}
		sort.Ints(out)
		return out
	}
	checkAll := func(what string) bool {
		counts, err := idx.VerifValidate()
		if err != nil {
			rc.Fail(name+"/not-a-valid-AVL-tree", "after %s: %v", what, err)
			return false
		}
		for _, tok := range tokens {
			want := sortedSet(tok)
			var got []int
			it := idx.Begin(tok)
			for n := 0; it.Next() && n < 200; n++ {
				got = append(got, it.Value().(int))
			}
			if fmt.Sprint(got) != fmt.Sprint(want) {
				rc.Fail(name+"/contents-differ-from-set", "after %s, token %q scans as %v but the reference set is %v", what, tok, got, want)
				return false
			}
			if known[tok] && counts[tok] != len(want) {
				rc.Fail(name+"/contents-differ-from-set", "after %s, token %q holds %d nodes but the reference set has %d values", what, tok, counts[tok], len(want))
				return false
			}
		}
		var gotTokens, wantTokens []string
		ti := idx.Tokens()
		for n := 0; ti.Next() && n < 20; n++ {
			gotTokens = append(gotTokens, ti.Token())
		}
		for t := range known {
			wantTokens = append(wantTokens, t)
		}
		sort.Strings(wantTokens)
		if fmt.Sprint(gotTokens) != fmt.Sprint(wantTokens) {
			rc.Fail(name+"/tokens-differ", "after %s, Tokens() = %v, expected %v", what, gotTokens, wantTokens)
			return false
		}
		return true
	}
	record := func(h *c07Holder, from int, to int, what string) {
		// values in (from, to) present since the iterator was opened were passed over
		for v := range h.alive {
			if h.alive[v] && v > from && v < to && v >= h.floor {
				h.missed[v] = true
			}
		}
	}
	for i := 0; i < steps && !rc.Failed(); i++ {
		switch rc.Pick(10, 3, 7) {
		case 0: // mutation
			v := rc.Draw(maxV)
			tok := tokens[rc.Draw(len(tokens))]
			add := rc.Pct(55)
			if len(model[tok]) > 0 && rc.Pct(30) {
				// bias: delete an existing value / the value an iterator stands on
				if len(holders) > 0 && rc.Pct(50) {
					h := holders[rc.Draw(len(holders))]
					if h.last >= 0 {
						v, tok, add = h.last, h.token, false
					}
				} else {
					s := sortedSet(tok)
					v, add = s[rc.Draw(len(s))], false
				}
			}
			if add {
				if !rc.Guard(name+"/panic", func() { idx.Add(v, []string{tok}) }) {
					return
				}
				if model[tok] == nil {
					model[tok] = map[int]bool{}
				}
				model[tok][v] = true
				known[tok] = true
				rc.Notef("#%d Add(%d, %q)", i, v, tok)
			} else {
				if !model[tok][v] {
					continue // removing an absent value: TreeIndex.Remove's length bookkeeping is not part of this property
				}
				if !rc.Guard(name+"/panic", func() { idx.Remove(v, []string{tok}) }) {
					return
				}
				delete(model[tok], v)
				for _, h := range holders {
					if h.token == tok && h.last == v && !h.exhausted {
						rc.Probe("deleted-under-iterator")
					}
					if h.token == tok {
						h.alive[v] = false
						delete(h.missed, v)
					}
				}
				rc.Notef("#%d Remove(%d, %q)", i, v, tok)
			}
			rc.Case(add, v, tok)
			if len(holders) > 0 {
				mutationsWhileOpen++
			}
			if !checkAll(fmt.Sprintf("step %d", i)) {
				return
			}
		case 1: // open an iterator
			if len(holders) >= 3 {
				continue
			}
			tok := tokens[rc.Draw(len(tokens))]
			h := &c07Holder{token: tok, last: -1, alive: map[int]bool{}, missed: map[int]bool{}}
			if !rc.Guard(name+"/panic", func() { h.it = idx.Begin(tok) }) {
				return
			}
			for v := range model[tok] {
				h.alive[v] = true
			}
			holders = append(holders, h)
			rc.Notef("#%d holder %d: Begin(%q)", i, len(holders)-1, tok)
			rc.Case("begin", tok)
		default: // an iterator moves
			if len(holders) == 0 {
				continue
			}
			hi := rc.Draw(len(holders))
			h := holders[hi]
			if h.exhausted {
				continue
			}
			h.steps++
			var ok bool
			what := "Next()"
			target := -1
			if rc.Pct(30) {
				target = rc.Draw(maxV + 1)
				what = fmt.Sprintf("Advance(%d)", target)
				if !rc.Guard(name+"/panic", func() { ok = h.it.Advance(target) }) {
					return
				}
			} else {
				if !rc.Guard(name+"/panic", func() { ok = h.it.Next() }) {
					return
				}
			}
			rc.Case("move", hi, target)
			if !ok {
				rc.Notef("#%d holder %d: %s -> exhausted", i, hi, what)
				h.exhausted = true
				from := h.last
				if target >= 0 && target > h.floor {
					h.floor = target
				}
				record(h, from, 1<<30, what)
				continue
			}
			var got int
			if !rc.Guard(name+"/panic", func() { got = h.it.Value().(int) }) {
				return
			}
			rc.Notef("#%d holder %d: %s -> %d", i, hi, what, got)
			if !model[h.token][got] {
				rc.Fail(name+"/iterator-returned-deleted-value", "holder %d on token %q: %s returned %d, which is not in the set (it was deleted)", hi, h.token, what, got)
				return
			}
			if target >= 0 {
				// Advance: must land on a value >= target, and must not move backwards;
				// it may stay on the current value if that is already >= target
				if got < target {
					rc.Fail(name+"/advance-landed-before-key", "holder %d on token %q: Advance(%d) landed on %d", hi, h.token, target, got)
					return
				}
				if got < h.last {
					rc.Fail(name+"/iterator-went-backwards", "holder %d on token %q: %s moved from %d back to %d", hi, h.token, what, h.last, got)
					return
				}
				if target > h.floor {
					h.floor = target
				}
				if got != h.last {
					record(h, h.last, got, what)
				}
			} else {
				if got <= h.last {
					rc.Fail(name+"/iterator-repeated-or-went-backwards", "holder %d on token %q: Next() returned %d after %d", hi, h.token, got, h.last)
					return
				}
				record(h, h.last, got, what)
			}
			h.last = got
		}
	}
	// at the end: candidates that stayed present throughout were skipped
	for hi, h := range holders {
		var skipped []int
		for v := range h.missed {
			if h.alive[v] && model[h.token][v] {
				skipped = append(skipped, v)
			}
		}
		sort.Ints(skipped)
		if len(skipped) > 0 {
			rc.Fail(name+"/iterator-skipped-present-value", "holder %d on token %q passed over %v, which were in the set during its whole life (last returned %d, exhausted=%v)", hi, h.token, skipped, h.last, h.exhausted)
			return
		}
	}
	rc.SetNontrivial(mutationsWhileOpen >= 8)
}
