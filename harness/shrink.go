package harness

import "time"

// shrinkTape minimises (g, s) while try keeps returning a failure of the
// same class. 0 is the simplest value everywhere, so the result converges
// to few operations, few faults and an almost sequential schedule.
func shrinkTape(g, s []uint32, class string, budget time.Duration, try func(g, s []uint32) *Failure) (bg, bs []uint32, tries int) {
	deadline := time.Now().Add(budget)
	bg = append([]uint32(nil), g...)
	bs = append([]uint32(nil), s...)
	same := func(cg, cs []uint32) bool {
		tries++
		f := try(cg, cs)
		return f != nil && f.Class == class
	}
	expired := func() bool { return time.Now().After(deadline) }
	trim := func(x []uint32) []uint32 {
		for len(x) > 0 && x[len(x)-1] == 0 {
			x = x[:len(x)-1]
		}
		return x
	}
	pass := func(which int) bool {
		improved := false
		get := func() []uint32 {
			if which == 0 {
				return bg
			}
			return bs
		}
		attempt := func(c []uint32) bool {
			if expired() {
				return false
			}
			c = trim(c)
			var ok bool
			if which == 0 {
				ok = same(c, bs)
			} else {
				ok = same(bg, c)
			}
			if ok {
				if which == 0 {
					bg = c
				} else {
					bs = c
				}
				improved = true
			}
			return ok
		}
		// 1. truncate (zeros past the end)
		for n := len(get()) / 2; n >= 1 && !expired(); n /= 2 {
			for len(get()) >= n {
				cur := get()
				if !attempt(append([]uint32(nil), cur[:len(cur)-n]...)) {
					break
				}
			}
		}
		// 2. delete chunks
		for n := len(get()) / 2; n >= 1 && !expired(); n /= 2 {
			for i := 0; i+n <= len(get()) && !expired(); {
				cur := get()
				c := append(append([]uint32(nil), cur[:i]...), cur[i+n:]...)
				if !attempt(c) {
					i += n
				}
			}
		}
		// 3. zero chunks
		for n := len(get()) / 2; n >= 1 && !expired(); n /= 2 {
			for i := 0; i+n <= len(get()) && !expired(); i += n {
				cur := get()
				allZero := true
				for _, v := range cur[i : i+n] {
					if v != 0 {
						allZero = false
					}
				}
				if allZero {
					continue
				}
				c := append([]uint32(nil), cur...)
				for j := i; j < i+n; j++ {
					c[j] = 0
				}
				attempt(c)
			}
		}
		// 4. lower single values
		for i := 0; i < len(get()) && !expired(); i++ {
			cur := get()
			if i >= len(cur) || cur[i] == 0 {
				continue
			}
			for _, nv := range []uint32{0, cur[i] / 2, cur[i] - 1} {
				if nv >= cur[i] {
					continue
				}
				c := append([]uint32(nil), cur...)
				c[i] = nv
				if attempt(c) {
					break
				}
			}
		}
		return improved
	}
	for round := 0; round < 6 && !expired(); round++ {
		a := pass(0)
		b := pass(1)
		if !a && !b {
			break
		}
	}
	return bg, bs, tries
}
