package harness

import (
	"fmt"
	"sort"
	"strings"

	"diagonal.works/b6"
	"diagonal.works/b6/api"
	"diagonal.works/b6/api/functions"
	b6grpc "diagonal.works/b6/grpc"
	"diagonal.works/b6/ingest"
	pb "diagonal.works/b6/proto"
	"verif/simrt"
	"verif/simrt/ssync"
)

// C26: callers are told whether their change was applied.

func init() {
	register(&Scenario{
		Prop:      "C26",
		Run:       runC26,
		Preempt:   true,
		NeedsRace: true,
		Real: []string{
			"grpc service Evaluate (change branch with the lock upgrade) and api.Evaluator.EvaluateExpression driven the way ui.lockedHandler drives it (caller holds the read lock)",
			"api.ParseExpression, Simplify, the VM, functions add-tag / remove-tag / add-point / merge-changes, ingest.AddTags / RemoveTags / AddFeatures / MergedChange, MutableOverlayWorld over a generated basic base",
		},
		Stubs: []string{"tag-and-existence model (harness) deciding whether a change can apply and which ids it modifies"},
		Assumptions: []string{
			"every request is a change; failing ones are generated from model state (tag edit on a missing feature, a merged change with such a part, a point moved so that a ring through it becomes invalid)",
			"with several clients only changes whose success does not depend on their order are issued",
			"returned ids are compared as a set with the ids the model says the change modifies",
		},
		Rule: "one case = (entry point, 1-3 clients, 1-6 change requests each, 0-3 of them failing) under one schedule; non-trivial = at least one failing and one succeeding change; distinct = distinct hash of (requests, schedule trace)",
	})
}

// faultyWorlds hands out worlds whose k-th mutating call fails: a fault in
// the real world that MergedChange's dry run on a canary overlay cannot
// predict ("change partially applied").
type faultyWorlds struct {
	inner  ingest.Worlds
	failAt int
	calls  int
}

func (f *faultyWorlds) FindOrCreateWorld(id b6.FeatureID) ingest.MutableWorld {
	return &faultyWorld{MutableWorld: f.inner.FindOrCreateWorld(id), f: f}
}
func (f *faultyWorlds) ListWorlds() []b6.FeatureID  { return f.inner.ListWorlds() }
func (f *faultyWorlds) DeleteWorld(id b6.FeatureID) { f.inner.DeleteWorld(id) }

type faultyWorld struct {
	ingest.MutableWorld
	f *faultyWorlds
}

var errInjectedWorldFault = fmt.Errorf("injected fault in the world")

func (w *faultyWorld) tick() error {
	w.f.calls++
	if w.f.calls == w.f.failAt {
		return errInjectedWorldFault
	}
	return nil
}

func (w *faultyWorld) AddFeature(f ingest.Feature) error {
	if err := w.tick(); err != nil {
		return err
	}
	return w.MutableWorld.AddFeature(f)
}

func (w *faultyWorld) AddTag(id b6.FeatureID, tag b6.Tag) error {
	if err := w.tick(); err != nil {
		return err
	}
	return w.MutableWorld.AddTag(id, tag)
}

func (w *faultyWorld) RemoveTag(id b6.FeatureID, key string) error {
	if err := w.tick(); err != nil {
		return err
	}
	return w.MutableWorld.RemoveTag(id, key)
}

type c26Req struct {
	// visible: a tag (under a key no other request uses) that must be
	// readable in the world once the caller was told the change applied
	visible *c26Visible
	calls   int // mutating world calls the change makes when it applies
	expr    string
	ok      bool     // the model says the change applies
	ids     []string // ids the model says it modifies
	comment string
}

type c26Visible struct {
	id       b6.FeatureID
	key, val string
}

func idsOfLiteral(n *pb.NodeProto) ([]string, bool) {
	c := n.GetLiteral().GetCollectionValue()
	if c == nil {
		return nil, false
	}
	seen := map[string]bool{}
	for _, k := range c.GetKeys() {
		if f := k.GetFeatureIDValue(); f != nil {
			seen[b6.NewFeatureIDFromProto(f).String()] = true
		}
	}
	var out []string
	for k := range seen {
		out = append(out, k)
	}
	sort.Strings(out)
	return out, true
}

func idsOfCollection(c b6.Collection[b6.FeatureID, b6.FeatureID]) []string {
	seen := map[string]bool{}
	i := c.Begin()
	for n := 0; n < 100; n++ {
		ok, err := i.Next()
		if !ok || err != nil {
			break
		}
		seen[i.Key().String()] = true
	}
	var out []string
	for k := range seen {
		out = append(out, k)
	}
	sort.Strings(out)
	return out
}

func runC26(rc *RC) {
	entry := rc.Draw(2) // 0: gRPC service, 1: UI evaluator
	entryName := []string{"grpc service Evaluate", "api.Evaluator.EvaluateExpression"}[entry]
	name := "C26/" + entryName
	rc.Phase(name)
	g := newCityGen(rc)
	s, base, err := newC40Service(rc, g)
	if err != nil {
		rc.Fail("HARNESS/fixture", "%v", err)
		return
	}
	lock, ev := s.lock, s.ev
	_ = base
	// world configurations: normal; read-only server (every change must be
	// reported as failed); a world with an injected fault at its k-th
	// mutating call (single client, so the model knows which request it hits)
	cfg := rc.Pick(7, 1, 2)
	var faulty *faultyWorlds
	switch cfg {
	case 1:
		ro := ingest.ReadOnlyWorlds{Base: s.worlds.Base}
		s.svc = b6grpc.NewB6Service(ro, api.Options{Cores: 1}, lock)
		ev.Worlds = ro
		name += "(read-only worlds)"
		rc.Phase(name)
	case 2:
		faulty = &faultyWorlds{inner: s.worlds, failAt: rc.Range(1, 6)}
		s.svc = b6grpc.NewB6Service(faulty, api.Options{Cores: 1}, lock)
		ev.Worlds = faulty
		name += "(world fault)"
		rc.Phase(name)
		rc.Configured("world-fault")
	}
	nClients := rc.Range(1, 3)
	if cfg == 2 {
		nClients = 1
	}
	rings := g.closedPathIDs()
	var plans [][]c26Req
	failing, succeeding := 0, 0
	for c := 0; c < nClients; c++ {
		var plan []c26Req
		for n := rc.Range(1, 6); n > 0; n-- {
			plan = append(plan, c26Gen(rc, g, rings, c, 0))
			if plan[len(plan)-1].ok {
				succeeding++
			} else {
				failing++
				rc.Configured("reject")
			}
			rc.Case(c, plan[len(plan)-1].expr)
		}
		plans = append(plans, plan)
	}
	if cfg == 1 {
		for _, plan := range plans {
			for i := range plan {
				plan[i].ok, plan[i].ids, plan[i].comment = false, nil, "the server is read-only"
			}
		}
		failing, succeeding = 1, 1
	}
	if cfg == 2 {
		// walk the single client's plan: mutating calls happen only when the
		// dry run passes (for merged changes) and in order
		calls := 0
		for i := range plans[0] {
			r := &plans[0][i]
			n := r.calls
			if r.ok && calls < faulty.failAt && faulty.failAt <= calls+n {
				r.ok, r.ids, r.comment = false, nil, fmt.Sprintf("the world fails at its mutating call number %d", faulty.failAt)
				rc.Probe("world-fault-hits-a-request")
			}
			calls += n
		}
	}
	for _, plan := range plans {
		for _, r := range plan {
			if err := s.prepare(r.expr); err != nil {
				rc.Fail("HARNESS/fixture", "%v", err)
				return
			}
		}
	}
	rc.Knob("clients", nClients)
	rc.Knob("entry", entry)
	type result struct {
		req    c26Req
		err    error
		ids    []string
		hasIDs bool
	}
	results := make([][]result, nClients)
	var wg ssync.WaitGroup
	for c := 0; c < nClients; c++ {
		c := c
		wg.Add(1)
		simrt.GoNamed(fmt.Sprintf("client%d", c), func() {
			defer wg.Done()
			for _, r := range plans[c] {
				res := result{req: r}
				if entry == 0 {
					resp, err := s.svc.Evaluate(contextBackground(), &pb.EvaluateRequestProto{Request: s.parsed[r.expr], Version: b6.ApiVersion})
					res.err = err
					if err == nil {
						res.ids, res.hasIDs = idsOfLiteral(resp.GetResult())
					}
				} else {
					e, perr := b6.ExpressionFromProto(s.parsed[r.expr])
					if perr != nil {
						res.err = perr
					} else {
						lock.RLock() // as ui.lockedHandler does around every request
						v, err := ev.EvaluateExpression(e, b6.FeatureID{})
						lock.RUnlock()
						_ = functions.Functions
						res.err = err
						if ac, ok := v.(*api.AppliedChange); ok && err == nil {
							res.ids, res.hasIDs = idsOfCollection(ac.Modified), true
						}
					}
				}
				results[c] = append(results[c], res)
			}
		})
	}
	wg.Wait()
	for c := range results {
		for _, r := range results[c] {
			rc.Notef("client%d %s [%s; model: ok=%v ids=%v] -> err=%v ids=%v", c, r.req.expr, r.req.comment, r.req.ok, r.req.ids, r.err, r.ids)
			if !r.req.ok {
				rc.Fired("reject")
			}
			switch {
			case r.req.ok && r.err != nil:
				rc.Fail(name+"/error-for-applied-change", "%s must apply (%s) but the caller got the error %q", r.req.expr, r.req.comment, r.err)
				return
			case !r.req.ok && r.err == nil:
				rc.Fail(name+"/success-reported-for-failed-change", "%s cannot apply (%s) but the caller got no error (ids %v)", r.req.expr, r.req.comment, r.ids)
				return
			case r.req.ok:
				if !r.hasIDs {
					rc.Fail(name+"/no-ids-returned", "%s applied but the response carries no collection of ids", r.req.expr)
					return
				}
				if strings.Join(r.ids, " ") != strings.Join(r.req.ids, " ") {
					rc.Fail(name+"/wrong-ids-returned", "%s applied; it modifies %v but the response lists %v", r.req.expr, r.req.ids, r.ids)
					return
				}
			}
		}
	}
	// told "applied" => the change is in the world the request addressed
	// (all requests address the default world)
	if cfg != 1 {
		var w b6.World
		if !rc.Guard(name+"/panic", func() { w = s.worlds.FindOrCreateWorld(b6.FeatureID{}) }) {
			return
		}
		for c := range results {
			for _, r := range results[c] {
				if v := r.req.visible; v != nil && r.req.ok && r.err == nil {
					got := ""
					if f := w.FindFeatureByID(v.id); f != nil {
						if t := f.Get(v.key); t.IsValid() {
							got = t.Value.String()
						}
					}
					if got != v.val {
						rc.Fail(name+"/applied-change-not-in-the-world", "client %d was told that %s applied, but afterwards %s has %s=%q in the world the request addressed (expected %q)", c, r.req.expr, v.id, v.key, got, v.val)
						return
					}
				}
			}
		}
	}
	rc.SetNontrivial(failing > 0 && succeeding > 0)
}

// c26Gen draws one change request together with the model's verdict.
func c26Gen(rc *RC, g *cityGen, rings []b6.FeatureID, client int, depth int) c26Req {
	f := pointID(rc.Draw(maxPoints))
	missing := pointID(maxPoints)
	k := []string{"name", "#amenity", "note"}[rc.Draw(3)]
	g.valueCounter++
	v := fmt.Sprintf("v%d", g.valueCounter)
	switch rc.Pick(5, 2, 2, 2, 3, 2, 2, 2, 1, 1) {
	case 6, 7:
		// add-tags / remove-tags over several features; entries are applied
		// in order and the first missing feature fails the change
		n := rc.Range(2, 3)
		bad := -1
		if rc.Pct(30) {
			bad = rc.Draw(n)
		}
		var entries []string
		idset := map[string]bool{}
		first := rc.Draw(maxPoints)
		fn := "add-tags"
		for i := 0; i < n; i++ {
			id := pointID((first + i*7) % maxPoints)
			if i == bad {
				id = missing
			}
			idset[id.String()] = true
			g.valueCounter++
			entries = append(entries, fmt.Sprintf("/%s: (tag %q %q)", id, k, fmt.Sprintf("v%d", g.valueCounter)))
		}
		if rc.Pct(40) {
			fn = "remove-tags"
			entries = entries[:0]
			for i := 0; i < n; i++ {
				id := pointID((first + i*7) % maxPoints)
				if i == bad {
					id = missing
				}
				entries = append(entries, fmt.Sprintf("/%s: %q", id, k))
			}
		}
		expr := fn + " {" + strings.Join(entries, ", ") + "}"
		if bad >= 0 {
			return c26Req{expr: expr, ok: false, calls: bad + 1, comment: fmt.Sprintf("entry %d names a feature that does not exist", bad)}
		}
		var ids []string
		for id := range idset {
			ids = append(ids, id)
		}
		sort.Strings(ids)
		return c26Req{expr: expr, ok: true, calls: n, ids: ids, comment: "tags on existing points"}
	case 8:
		// a relation over existing and missing members: relations are not
		// validated against their members, so this always applies
		rid := b6.FeatureID{Type: b6.FeatureTypeRelation, Namespace: nsB, Value: uint64(100 + client)}
		return c26Req{expr: fmt.Sprintf("add-relation /%s {0: (tag %q %q)} {/%s: \"a\", /%s: \"b\"}", rid, k, v, f, missing), ok: true, calls: 1, ids: []string{rid.String()}, comment: "a relation (never rejected)"}
	case 9:
		cid := b6.FeatureID{Type: b6.FeatureTypeCollection, Namespace: nsB, Value: uint64(100 + client)}
		return c26Req{expr: fmt.Sprintf("add-collection /%s {0: (tag %q %q)} {/%s: 1, /%s: 2}", cid, k, v, f, missing), ok: true, calls: 1, ids: []string{cid.String()}, comment: "a collection (never rejected)"}
	case 0:
		if rc.Pct(40) {
			// a key of its own: nothing else can overwrite or remove it
			uk := "u" + v
			return c26Req{expr: fmt.Sprintf("add-tag /%s (tag %q %q)", f, uk, v), ok: true, calls: 1, ids: []string{f.String()}, comment: "tag (under a key of its own) on an existing point", visible: &c26Visible{id: f, key: uk, val: v}}
		}
		return c26Req{expr: fmt.Sprintf("add-tag /%s (tag %q %q)", f, k, v), ok: true, calls: 1, ids: []string{f.String()}, comment: "tag on an existing point"}
	case 1:
		return c26Req{expr: fmt.Sprintf("add-tag /%s (tag %q %q)", missing, k, v), ok: false, calls: 1, comment: "tag on a feature that does not exist"}
	case 2:
		return c26Req{expr: fmt.Sprintf("remove-tag /%s %q", f, k), ok: true, calls: 1, ids: []string{f.String()}, comment: "remove a tag from an existing point"}
	case 3:
		return c26Req{expr: fmt.Sprintf("remove-tag /%s %q", missing, k), ok: false, calls: 1, comment: "remove a tag from a feature that does not exist"}
	case 4:
		if depth == 0 {
			n := rc.Range(2, 3)
			var parts []string
			ok := true
			idset := map[string]bool{}
			why := "all parts apply"
			partCalls := 0
			for i := 0; i < n; i++ {
				p := c26Gen(rc, g, rings, client, 1)
				partCalls += p.calls
				parts = append(parts, fmt.Sprintf("%d: (%s)", i, p.expr))
				if !p.ok {
					ok = false
					why = fmt.Sprintf("part %d fails: %s", i, p.comment)
				}
				for _, id := range p.ids {
					idset[id] = true
				}
			}
			var ids []string
			if ok {
				for id := range idset {
					ids = append(ids, id)
				}
				sort.Strings(ids)
			}
			calls := 0
			if ok {
				calls = partCalls // a merged change only touches the real world when its dry run passed
			}
			return c26Req{expr: "merge-changes {" + strings.Join(parts, ", ") + "}", ok: ok, calls: calls, ids: ids, comment: why}
		}
		fallthrough
	default:
		// add-point: a new point (applies), or - single client only - a
		// corner of a ring moved far across so that the ring becomes invalid
		newID := pointID(maxPoints + 2 + client%2)
		lat, lng := gridE7(int(newID.Value-1)%maxPoints, 1)
		return c26Req{expr: fmt.Sprintf("add-point (%.7f, %.7f) /%s {0: (tag %q %q)}", float64(lat)/1e7+0.0009, float64(lng)/1e7, newID, k, v), ok: true, calls: 1, ids: []string{newID.String()}, comment: "a new point"}
	}
}
