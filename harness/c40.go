package harness

import (
	"context"
	"fmt"
	"sort"
	"strings"
	"time"

	"diagonal.works/b6"
	"diagonal.works/b6/api"
	"diagonal.works/b6/api/functions"
	b6grpc "diagonal.works/b6/grpc"
	"diagonal.works/b6/ingest"
	pb "diagonal.works/b6/proto"
	"github.com/anishathalye/porcupine"
	"verif/simrt"
	"verif/simrt/ssync"
)

// C40: concurrent client requests behave like some serial order.

func init() {
	register(&Scenario{
		Prop:      "C40",
		Run:       runC40,
		Preempt:   true,
		NeedsRace: true,
		Real: []string{
			"grpc.NewB6Service and its Evaluate / ListWorlds / DeleteWorld methods called in-process (as grpc/service_test.go does), with its shared RWMutex and the RUnlock/Lock/Unlock/RLock upgrade around change application",
			"ingest.MutableWorlds (FindOrCreateWorld / ListWorlds / DeleteWorld and its mutex), api.ParseExpression / Simplify / Evaluate with the real function library, MutableOverlayWorld over a generated basic base, expression <-> proto conversion",
		},
		Stubs: []string{
			"no transport: the gRPC server object is called directly (b6 has no protocol of its own beyond it)",
			"sequential model for porcupine (harness): world id -> existence + (feature, key) -> value",
		},
		Assumptions: []string{
			"requests are blind writes (add-tag with unique values, remove-tag, merge-changes of those, possibly with a failing part), reads (get-string), ListWorlds and DeleteWorld; histories are stamped with the scheduler's global event counter and checked for linearizability with porcupine v1.3.0 (30 s timeout; Unknown is counted, never reported)",
			"12% of runs also issue add-world-with-change requests (evaluated against one world id, replacing another); such a run's history is judged against the serial model first and, if no serial order explains it, against a model that runs the function's three steps separately (known finding C40/service/add-world-not-atomic); race reports with that function in a stack are the known finding C40/race:via functions.addWorldWithChange",
			"after all clients finish, the main task issues ListWorlds and one read per (listed world, feature, key) as further operations of the same history, which ties the final worlds to the linearization",
			"interleavings inside the lock-upgrade window come from the scheduler (every lock operation is a scheduling point) plus R13 preemption points in grpc/service.go, ingest/worlds.go, ingest/mutable.go and api/evaluator.go",
			"the race detector runs on the serialised schedule (DESIGN.md §3.4): no false positives, false negatives possible",
		},
		Rule: "one case = (2-4 clients x 1-5 requests over 1-3 world ids) under one schedule; non-trivial = >=2 scheduling decisions with >=2 runnable tasks; distinct = distinct hash of the schedule trace",
	})
}

type c40In struct {
	Kind   string // addtag, removetag, merge, read, list, delete
	World  int    // index into world ids; 0 = default (invalid root id)
	Feat   int
	Key    string
	Val    string
	Parts  []c40In // merge; addworld: the one change applied to the new world
	Target int     // addworld: index of the world that is replaced
	Fail   bool    // merge part / change that must fail (missing feature)
	Final  bool    // issued by the main task after every client finished
}

func (in c40In) String() string {
	switch in.Kind {
	case "addtag":
		return fmt.Sprintf("w%d: add-tag f%d %s=%s%s", in.World, in.Feat, in.Key, in.Val, failMark(in.Fail))
	case "removetag":
		return fmt.Sprintf("w%d: remove-tag f%d %s%s", in.World, in.Feat, in.Key, failMark(in.Fail))
	case "merge":
		var p []string
		for _, x := range in.Parts {
			p = append(p, x.String())
		}
		return fmt.Sprintf("w%d: merge-changes{%s}", in.World, strings.Join(p, "; "))
	case "read":
		return fmt.Sprintf("w%d: get-string f%d %s", in.World, in.Feat, in.Key)
	case "copy":
		return fmt.Sprintf("w%d: add-tag f%d %s=(get-string f%d %s)", in.World, in.Feat, in.Key, in.Feat, in.Val)
	case "addworld":
		return fmt.Sprintf("w%d: add-world-with-change w%d {%s}", in.World, in.Target, in.Parts[0].String())
	case "list":
		return "ListWorlds"
	case "delete":
		return fmt.Sprintf("DeleteWorld w%d", in.World)
	}
	return in.Kind
}

func failMark(f bool) string {
	if f {
		return " (on a missing feature)"
	}
	return ""
}

type c40Out struct {
	Err    bool
	ErrMsg string
	Val    string
	Worlds string // sorted world indexes for list
}

var c40Worlds = []b6.FeatureID{
	{}, // default
	{Type: b6.FeatureTypeCollection, Namespace: "diagonal.works/test/world", Value: 1},
	{Type: b6.FeatureTypeCollection, Namespace: "diagonal.works/test/world", Value: 2},
}

func c40FeatureID(i int) b6.FeatureID {
	if i < 0 {
		return pointID(maxPoints) // never exists
	}
	return pointID(i)
}

func (in c40In) expression() string {
	switch in.Kind {
	case "addtag":
		f := in.Feat
		if in.Fail {
			f = -1
		}
		return fmt.Sprintf("add-tag /%s (tag %q %q)", c40FeatureID(f), in.Key, in.Val)
	case "removetag":
		f := in.Feat
		if in.Fail {
			f = -1
		}
		return fmt.Sprintf("remove-tag /%s %q", c40FeatureID(f), in.Key)
	case "merge":
		var p []string
		for i, x := range in.Parts {
			p = append(p, fmt.Sprintf("%d: (%s)", i, x.expression()))
		}
		return "merge-changes {" + strings.Join(p, ", ") + "}"
	case "addworld":
		return fmt.Sprintf("add-world-with-change /%s (%s)", c40Worlds[in.Target], in.Parts[0].expression())
	case "read":
		return fmt.Sprintf("get-string /%s %q", c40FeatureID(in.Feat), in.Key)
	case "copy":
		// a change computed from a read: key := current value of key Val
		return fmt.Sprintf("add-tag /%s (tag %q (get-string /%s %q))", c40FeatureID(in.Feat), in.Key, c40FeatureID(in.Feat), in.Val)
	}
	panic("no expression for " + in.Kind)
}

// ---- sequential model: state is a canonical string
//
// "w<i>{f<feat>.<key>=<val>,...}" for each existing world, sorted.

type c40State struct {
	exists [3]bool
	tags   [3]map[string]string
}

func c40Parse(s string) c40State {
	var st c40State
	for i := range st.tags {
		st.tags[i] = map[string]string{}
	}
	for _, w := range strings.Split(s, "|") {
		if w == "" {
			continue
		}
		idx := int(w[1] - '0')
		st.exists[idx] = true
		body := w[3 : len(w)-1]
		if body == "" {
			continue
		}
		for _, kv := range strings.Split(body, ",") {
			p := strings.SplitN(kv, "=", 2)
			st.tags[idx][p[0]] = p[1]
		}
	}
	return st
}

func (st c40State) String() string {
	var ws []string
	for i := range st.exists {
		if !st.exists[i] {
			continue
		}
		var kvs []string
		for k, v := range st.tags[i] {
			kvs = append(kvs, k+"="+v)
		}
		sort.Strings(kvs)
		ws = append(ws, fmt.Sprintf("w%d{%s}", i, strings.Join(kvs, ",")))
	}
	return strings.Join(ws, "|")
}

// baseTags holds the base world's values of the tracked (feature, key) pairs.
var c40BaseTags map[string]string

func c40Lookup(st *c40State, w, feat int, key string) string {
	k := fmt.Sprintf("f%d.%s", feat, key)
	if v, ok := st.tags[w][k]; ok {
		if v == "\x00" {
			return ""
		}
		return v
	}
	return c40BaseTags[k]
}

func c40ApplyChange(st *c40State, in c40In) bool {
	switch in.Kind {
	case "addtag":
		if in.Fail {
			return false
		}
		st.tags[in.World][fmt.Sprintf("f%d.%s", in.Feat, in.Key)] = in.Val
		return true
	case "removetag":
		if in.Fail {
			return false
		}
		st.tags[in.World][fmt.Sprintf("f%d.%s", in.Feat, in.Key)] = "\x00"
		return true
	case "copy":
		st.tags[in.World][fmt.Sprintf("f%d.%s", in.Feat, in.Key)] = c40Lookup(st, in.World, in.Feat, in.Val)
		return true
	case "merge":
		for _, p := range in.Parts {
			if p.Fail {
				return false // all or nothing
			}
		}
		for _, p := range in.Parts {
			p.World = in.World
			c40ApplyChange(st, p)
		}
		return true
	}
	panic("not a change")
}

func c40Step(state, input, output interface{}) (bool, interface{}) {
	st := c40Parse(state.(string))
	in := input.(c40In)
	out := output.(c40Out)
	switch in.Kind {
	case "list":
		var idx []string
		for i, e := range st.exists {
			if e {
				idx = append(idx, fmt.Sprint(i))
			}
		}
		if len(idx) == 0 {
			idx = []string{"0"}
		}
		if !in.Final {
			// While requests are in flight only sanity is demanded of a
			// listing: Evaluate makes its world visible when it starts
			// (FindOrCreateWorld) but its change takes effect when it is
			// applied, so a concurrent listing may see a world whose first
			// change has not happened yet. The property speaks of the
			// resulting worlds; those are pinned by the final listing and
			// reads, which are checked exactly.
			return !out.Err && !strings.Contains(out.Worlds, "?"), state
		}
		return !out.Err && out.Worlds == strings.Join(idx, ","), state
	case "delete":
		st.exists[in.World] = false
		st.tags[in.World] = map[string]string{}
		return !out.Err, st.String()
	case "read":
		st.exists[in.World] = true // evaluating against a world id creates the world
		return !out.Err && out.Val == c40Lookup(&st, in.World, in.Feat, in.Key), st.String()
	case "addworld":
		// evaluated against in.World; replaces world in.Target by a fresh
		// one with the change applied (the fresh world stays if it fails)
		st.exists[in.World] = true
		st.exists[in.Target] = true
		st.tags[in.Target] = map[string]string{}
		part := in.Parts[0]
		part.World = in.Target
		ok := c40ApplyChange(&st, part)
		return out.Err == !ok, st.String()
	default:
		st.exists[in.World] = true
		ok := c40ApplyChange(&st, in)
		return out.Err == !ok, st.String()
	}
}

// ---- step model: what the service does on the unchanged tree, at the
// granularity of its critical sections. Used only to classify a history that
// no serial order explains (known findings C40/service/stale-apply and
// C40/service/add-world-not-atomic): a history this model explains is one of
// those; a history it does not explain either is a VIOLATION.
//
// Every Evaluate request is a sequence of steps inside its call interval:
//
//	begin     FindOrCreateWorld(root): the world becomes visible; the request
//	          holds on to that world object (an "incarnation" of the id) from
//	          here on, even if the id is deleted or re-created meanwhile
//	read      get-string: the value the held incarnation has now
//	eval      (change computed from a read) the value read from the held incarnation
//	apply     the change is applied to the held incarnation (under the write lock)
//	aw-delete add-world-with-change: DeleteWorld(target)
//	aw-create add-world-with-change: FindOrCreateWorld(target), held from here on
//	aw-apply  add-world-with-change: the change is applied to that incarnation
//
// DeleteWorld and ListWorlds are single steps. State: for every world id the
// registered incarnation (0 = none) and the tags of every incarnation ever
// created (an orphaned one can still be read and written by its holders).

type c40In2 struct {
	Phase string
	Req   int
	In    c40In
}

type c40State2 struct {
	cur     [3]int                       // registered incarnation per world id, 0 = none
	next    [3]int                       // incarnations created so far per world id
	tags    map[string]map[string]string // "w.g" -> (f<feat>.<key> -> value)
	pending map[int]string               // req -> "step,w,g,value" (what the request holds)
}

func c40Parse2(s string) c40State2 {
	st := c40State2{tags: map[string]map[string]string{}, pending: map[int]string{}}
	parts := strings.Split(s, "\x01")
	for len(parts) < 3 {
		parts = append(parts, "")
	}
	if parts[0] != "" {
		fmt.Sscanf(parts[0], "%d,%d,%d,%d,%d,%d", &st.cur[0], &st.cur[1], &st.cur[2], &st.next[0], &st.next[1], &st.next[2])
	}
	if parts[1] != "" {
		for _, inc := range strings.Split(parts[1], "|") {
			k := strings.SplitN(inc, "{", 2)
			m := map[string]string{}
			if body := strings.TrimSuffix(k[1], "}"); body != "" {
				for _, kv := range strings.Split(body, ",") {
					p := strings.SplitN(kv, "=", 2)
					m[p[0]] = p[1]
				}
			}
			st.tags[k[0]] = m
		}
	}
	if parts[2] != "" {
		for _, e := range strings.Split(parts[2], ";") {
			var req int
			if i := strings.IndexByte(e, ':'); i > 0 {
				fmt.Sscanf(e[:i], "%d", &req)
				st.pending[req] = e[i+1:]
			}
		}
	}
	return st
}

func (st c40State2) String() string {
	var incs []string
	for k, m := range st.tags {
		var kvs []string
		for a, b := range m {
			kvs = append(kvs, a+"="+b)
		}
		sort.Strings(kvs)
		incs = append(incs, k+"{"+strings.Join(kvs, ",")+"}")
	}
	sort.Strings(incs)
	var ps []string
	for r, v := range st.pending {
		ps = append(ps, fmt.Sprintf("%d:%s", r, v))
	}
	sort.Strings(ps)
	return fmt.Sprintf("%d,%d,%d,%d,%d,%d", st.cur[0], st.cur[1], st.cur[2], st.next[0], st.next[1], st.next[2]) + "\x01" + strings.Join(incs, "|") + "\x01" + strings.Join(ps, ";")
}

// touch is FindOrCreateWorld: returns the registered incarnation, creating one if there is none.
func (st *c40State2) touch(w int) int {
	if st.cur[w] == 0 {
		st.next[w]++
		st.cur[w] = st.next[w]
		st.tags[fmt.Sprintf("%d.%d", w, st.cur[w])] = map[string]string{}
	}
	return st.cur[w]
}

func (st *c40State2) lookup(w, g, feat int, key string) string {
	k := fmt.Sprintf("f%d.%s", feat, key)
	if v, ok := st.tags[fmt.Sprintf("%d.%d", w, g)][k]; ok {
		if v == "\x00" {
			return ""
		}
		return v
	}
	return c40BaseTags[k]
}

// applyTo applies a blind change to incarnation (w, g); false if it must fail.
func (st *c40State2) applyTo(w, g int, in c40In) bool {
	view := c40State{}
	for i := range view.tags {
		view.tags[i] = map[string]string{}
	}
	in.World = 0
	view.tags[0] = st.tags[fmt.Sprintf("%d.%d", w, g)]
	if view.tags[0] == nil {
		view.tags[0] = map[string]string{}
	}
	scratch := c40State{}
	for i := range scratch.tags {
		scratch.tags[i] = map[string]string{}
	}
	if !c40ApplyChange(&scratch, in) {
		return false
	}
	c40ApplyChange(&view, in)
	st.tags[fmt.Sprintf("%d.%d", w, g)] = view.tags[0]
	return true
}

func c40Step2(state, input, output interface{}) (bool, interface{}) {
	st := c40Parse2(state.(string))
	in2 := input.(c40In2)
	in := in2.In
	held := func() (step string, w, g int, val string, ok bool) {
		p, ok := st.pending[in2.Req]
		if !ok {
			return "", 0, 0, "", false
		}
		f := strings.SplitN(p, ",", 4)
		fmt.Sscanf(f[1], "%d", &w)
		fmt.Sscanf(f[2], "%d", &g)
		return f[0], w, g, f[3], true
	}
	hold := func(step string, w, g int, val string) {
		st.pending[in2.Req] = fmt.Sprintf("%s,%d,%d,%s", step, w, g, val)
	}
	switch in2.Phase {
	case "list":
		out := output.(c40Out)
		var idx []string
		for i, g := range st.cur {
			if g != 0 {
				idx = append(idx, fmt.Sprint(i))
			}
		}
		if len(idx) == 0 {
			idx = []string{"0"}
		}
		if !in.Final {
			return !out.Err && !strings.Contains(out.Worlds, "?"), state
		}
		return !out.Err && out.Worlds == strings.Join(idx, ","), state
	case "delete":
		out := output.(c40Out)
		st.cur[in.World] = 0
		return !out.Err, st.String()
	case "begin":
		if _, _, _, _, dup := held(); dup {
			return false, state
		}
		hold("begun", in.World, st.touch(in.World), "")
		return true, st.String()
	case "read":
		out := output.(c40Out)
		step, w, g, _, ok := held()
		if !ok || step != "begun" {
			return false, state
		}
		delete(st.pending, in2.Req)
		return !out.Err && out.Val == st.lookup(w, g, in.Feat, in.Key), st.String()
	case "eval":
		step, w, g, _, ok := held()
		if !ok || step != "begun" {
			return false, state
		}
		hold("evaluated", w, g, st.lookup(w, g, in.Feat, in.Val))
		return true, st.String()
	case "apply":
		out := output.(c40Out)
		step, w, g, val, ok := held()
		if !ok || (in.Kind == "copy") != (step == "evaluated") || (in.Kind != "copy" && step != "begun") {
			return false, state
		}
		delete(st.pending, in2.Req)
		applied := in
		if in.Kind == "copy" {
			applied = c40In{Kind: "addtag", Feat: in.Feat, Key: in.Key, Val: val}
		}
		return out.Err == !st.applyTo(w, g, applied), st.String()
	case "aw-delete":
		step, w, g, _, ok := held()
		if !ok || step != "begun" {
			return false, state
		}
		st.cur[in.Target] = 0
		hold("aw-deleted", w, g, "")
		return true, st.String()
	case "aw-create":
		step, _, _, _, ok := held()
		if !ok || step != "aw-deleted" {
			return false, state
		}
		hold("aw-created", in.Target, st.touch(in.Target), "")
		return true, st.String()
	case "aw-apply":
		out := output.(c40Out)
		step, w, g, _, ok := held()
		if !ok || step != "aw-created" {
			return false, state
		}
		delete(st.pending, in2.Req)
		return out.Err == !st.applyTo(w, g, in.Parts[0]), st.String()
	}
	panic("bad phase " + in2.Phase)
}

var c40Model2 = porcupine.Model{
	Init: func() interface{} { return "" },
	Step: c40Step2,
}

var c40Model = porcupine.Model{
	Init: func() interface{} { return "" },
	Step: c40Step,
	DescribeOperation: func(input, output interface{}) string {
		return fmt.Sprintf("%s -> %+v", input.(c40In), output.(c40Out))
	},
}

type c40Service struct {
	svc    pb.B6Server
	worlds *ingest.MutableWorlds
	parsed map[string]*pb.NodeProto
	// the UI's evaluator shares worlds and lock with the gRPC service, as in
	// cmd/b6: ui.lockedHandler takes the read lock around every request
	lock *ssync.RWMutex
	ev   *api.Evaluator
}

// callUI sends a request through api.Evaluator the way the UI does.
func (s *c40Service) callUI(in c40In) c40Out {
	e, err := b6.ExpressionFromProto(s.parsed[in.expression()])
	if err != nil {
		panic(fmt.Sprintf("harness: %v", err))
	}
	root := c40Worlds[in.World]
	s.lock.RLock()
	v, err := s.ev.EvaluateExpression(e, root)
	s.lock.RUnlock()
	if err != nil {
		return c40Out{Err: true, ErrMsg: err.Error()}
	}
	if in.Kind == "read" {
		return c40Out{Val: fmt.Sprint(v)}
	}
	return c40Out{}
}

// prepare parses an expression into its request proto (main task only).
func (s *c40Service) prepare(expr string) error {
	if s.parsed[expr] != nil {
		return nil
	}
	e, err := api.ParseExpression(expr)
	if err != nil {
		return fmt.Errorf("cannot parse %q: %v", expr, err)
	}
	p, err := e.ToProto()
	if err != nil {
		return fmt.Errorf("cannot convert %q: %v", expr, err)
	}
	s.parsed[expr] = p
	return nil
}

func newC40Service(rc *RC, g *cityGen) (*c40Service, []*fspec, error) {
	base := g.baseCity(false)
	bw, err := newBasicWorld(base)
	if err != nil {
		return nil, nil, err
	}
	worlds := &ingest.MutableWorlds{Base: bw}
	lock := &ssync.RWMutex{}
	ev := &api.Evaluator{Worlds: worlds, FunctionSymbols: functions.Functions(), Adaptors: functions.Adaptors(), Options: api.Options{Cores: 1}, Lock: lock}
	return &c40Service{svc: b6grpc.NewB6Service(worlds, api.Options{Cores: 1}, lock), worlds: worlds, parsed: map[string]*pb.NodeProto{}, lock: lock, ev: ev}, base, nil
}

func (s *c40Service) call(in c40In) c40Out {
	ctx := context.Background()
	switch in.Kind {
	case "list":
		r, err := s.svc.ListWorlds(ctx, &pb.ListWorldsRequestProto{})
		if err != nil {
			return c40Out{Err: true, ErrMsg: err.Error()}
		}
		var idx []string
		for _, p := range r.Ids {
			id := b6.NewFeatureIDFromProto(p)
			found := "?" + id.String()
			if id == ingest.DefaultWorldFeatureID {
				found = "0"
			}
			for i, w := range c40Worlds {
				if i > 0 && w == id {
					found = fmt.Sprint(i)
				}
			}
			idx = append(idx, found)
		}
		sort.Strings(idx)
		return c40Out{Worlds: strings.Join(idx, ",")}
	case "delete":
		id := c40Worlds[in.World]
		if in.World == 0 {
			id = ingest.DefaultWorldFeatureID
		}
		_, err := s.svc.DeleteWorld(ctx, &pb.DeleteWorldRequestProto{Id: b6.NewProtoFromFeatureID(id)})
		if err != nil {
			return c40Out{Err: true, ErrMsg: err.Error()}
		}
		return c40Out{}
	}
	// Requests are parsed to protos by the client before it talks to the
	// service (as a real client does); the parser has package-level state
	// and is not part of the service.
	p := s.parsed[in.expression()]
	if p == nil {
		panic(fmt.Sprintf("harness: %q was not prepared", in.expression()))
	}
	req := &pb.EvaluateRequestProto{Request: p, Version: b6.ApiVersion}
	if in.World > 0 {
		req.Root = b6.NewProtoFromFeatureID(c40Worlds[in.World])
	}
	r, err := s.svc.Evaluate(ctx, req)
	if err != nil {
		return c40Out{Err: true, ErrMsg: err.Error()}
	}
	if in.Kind == "read" {
		return c40Out{Val: r.GetResult().GetLiteral().GetStringValue()}
	}
	return c40Out{}
}

func c40GenChange(rc *RC, g *cityGen, feats []int, keys []string, allowMerge bool) c40In {
	f := feats[rc.Draw(len(feats))]
	k := keys[rc.Draw(len(keys))]
	switch rc.Pick(6, 2, 3) {
	case 1:
		return c40In{Kind: "removetag", Feat: f, Key: k, Fail: rc.Pct(12)}
	case 2:
		if allowMerge {
			in := c40In{Kind: "merge"}
			for n := rc.Range(2, 3); n > 0; n-- {
				in.Parts = append(in.Parts, c40GenChange(rc, g, feats, keys, false))
			}
			return in
		}
	}
	g.valueCounter++
	return c40In{Kind: "addtag", Feat: f, Key: k, Val: fmt.Sprintf("v%d", g.valueCounter), Fail: rc.Pct(10)}
}

type c40Op struct {
	client   int
	in       c40In
	out      c40Out
	call     int64
	ret      int64
	returned bool
}

func runC40(rc *RC) {
	name := "C40/service"
	readDependent := rc.Pct(20)
	// addWorld: some evaluations call add-world-with-change, which replaces
	// a world and applies a change to the new one during evaluation, under
	// the read lock; see the known finding C40/service/add-world-not-atomic
	addWorld := !readDependent && rc.Pct(12)
	// readDependent: some changes are computed from a read
	// (add-tag F (tag k (get-string F k2))); see the known finding
	// C40/service/stale-apply
	rc.Phase(name)
	g := newCityGen(rc)
	s, base, err := newC40Service(rc, g)
	if err != nil {
		rc.Fail("HARNESS/fixture", "%v", err)
		return
	}
	feats := []int{rc.Draw(maxPoints), (rc.Draw(maxPoints-1) + 1), 7}
	feats[1] = (feats[0] + feats[1]) % maxPoints
	keys := []string{"name", "#amenity"}
	c40BaseTags = map[string]string{}
	for _, sp := range base {
		for _, f := range feats {
			if sp.ID == pointID(f) {
				for _, t := range sp.Tags {
					c40BaseTags[fmt.Sprintf("f%d.%s", f, t.K)] = t.V
				}
			}
		}
	}
	nWorlds := rc.Range(1, 3)
	nClients := rc.Range(2, 4)
	var plans [][]c40In
	for c := 0; c < nClients; c++ {
		var plan []c40In
		for n := rc.Range(1, 5); n > 0; n-- {
			var in c40In
			switch rc.Pick(9, 5, 2, 2) {
			case 0:
				in = c40GenChange(rc, g, feats, keys, true)
				if readDependent && rc.Pct(70) {
					k1 := rc.Draw(len(keys))
					in = c40In{Kind: "copy", Feat: feats[0], Key: keys[k1], Val: keys[1-k1]}
				}
				if addWorld && rc.Pct(50) {
					// plain key: applying it is a single map write, so the
					// three-step model below describes the function exactly
					g.valueCounter++
					part := c40In{Kind: "addtag", Feat: feats[rc.Draw(len(feats))], Key: "name", Val: fmt.Sprintf("v%d", g.valueCounter), Fail: rc.Pct(10)}
					in = c40In{Kind: "addworld", Target: 1 + rc.Draw(2), Parts: []c40In{part}}
					rc.Probe("add-world-with-change-request")
				}
			case 1:
				in = c40In{Kind: "read", Feat: feats[rc.Draw(len(feats))], Key: keys[rc.Draw(len(keys))]}
			case 2:
				in = c40In{Kind: "list"}
			default:
				in = c40In{Kind: "delete"}
			}
			in.World = rc.Draw(nWorlds)
			plan = append(plan, in)
			rc.Case(c, in.String())
		}
		plans = append(plans, plan)
	}
	rc.Knob("clients", nClients)
	rc.Knob("worlds", nWorlds)
	for _, plan := range plans {
		for _, in := range plan {
			if in.Kind != "list" && in.Kind != "delete" {
				if err := s.prepare(in.expression()); err != nil {
					rc.Fail("HARNESS/fixture", "%v", err)
					return
				}
			}
		}
	}
	for _, f := range feats {
		for _, k := range keys {
			if err := s.prepare(c40In{Kind: "read", Feat: f, Key: k}.expression()); err != nil {
				rc.Fail("HARNESS/fixture", "%v", err)
				return
			}
		}
	}
	ops := make([][]c40Op, nClients)
	viaUI := make([]bool, nClients)
	for c := range viaUI {
		viaUI[c] = rc.Pct(35)
		if viaUI[c] {
			rc.Probe("client-via-ui-evaluator")
		}
	}
	var wg ssync.WaitGroup
	for c := 0; c < nClients; c++ {
		wg.Add(1)
		c := c
		name := fmt.Sprintf("client%d", c)
		if viaUI[c] {
			name += "(ui)"
		}
		simrt.GoNamed(name, func() {
			defer wg.Done()
			for _, in := range plans[c] {
				op := c40Op{client: c, in: in, call: simrt.Stamp()}
				ops[c] = append(ops[c], op)
				var out c40Out
				if viaUI[c] && in.Kind != "list" && in.Kind != "delete" {
					out = s.callUI(in)
				} else {
					out = s.call(in)
				}
				i := len(ops[c]) - 1
				ops[c][i].out, ops[c][i].ret, ops[c][i].returned = out, simrt.Stamp(), true
			}
		})
	}
	wg.Wait()
	// final reads by the main task, part of the same history
	var history []porcupine.Operation
	for c := range ops {
		for _, op := range ops[c] {
			rc.Notef("client%d [%d,%d] %s -> %+v", c, op.call, op.ret, op.in, op.out)
			history = append(history, porcupine.Operation{ClientId: c, Input: op.in, Output: op.out, Call: op.call, Return: op.ret})
		}
	}
	final := func(in c40In) c40Out {
		call := simrt.Stamp()
		out := s.call(in)
		ret := simrt.Stamp()
		rc.Notef("final   [%d,%d] %s -> %+v", call, ret, in, out)
		history = append(history, porcupine.Operation{ClientId: nClients, Input: in, Output: out, Call: call, Return: ret})
		return out
	}
	lw := final(c40In{Kind: "list", Final: true})
	if strings.Contains(lw.Worlds, "?") {
		rc.Fail(name+"/unknown-world-listed", "ListWorlds returned an id no request ever named: %s", lw.Worlds)
		return
	}
	seen := map[string]bool{}
	for _, w := range strings.Split(lw.Worlds, ",") {
		if seen[w] {
			rc.Fail(name+"/world-listed-twice", "ListWorlds returned world %s more than once: %s", w, lw.Worlds)
			return
		}
		seen[w] = true
		wi := int(w[0] - '0')
		if wi == 0 && lw.Worlds == "0" {
			continue // the "no worlds" answer; reading would create it
		}
		for _, f := range feats {
			for _, k := range keys {
				final(c40In{Kind: "read", World: wi, Feat: f, Key: k})
			}
		}
	}
	res := porcupine.CheckOperationsTimeout(c40Model, history, 30*time.Second)
	if res == porcupine.Illegal {
		// Not explained by any serial order. Is it explained by the
		// two-point semantics of the unchanged service (evaluate, then
		// apply later to the world obtained at evaluation)?
		var h2 []porcupine.Operation
		for i, op := range history {
			in := op.Input.(c40In)
			step := func(phase string, out interface{}) {
				h2 = append(h2, porcupine.Operation{ClientId: op.ClientId, Input: c40In2{Phase: phase, Req: i, In: in}, Output: out, Call: op.Call, Return: op.Return})
			}
			switch in.Kind {
			case "list", "delete":
				step(in.Kind, op.Output)
			case "read":
				step("begin", c40Out{})
				step("read", op.Output)
			case "addworld":
				step("begin", c40Out{})
				step("aw-delete", c40Out{})
				step("aw-create", c40Out{})
				step("aw-apply", op.Output)
			case "copy":
				step("begin", c40Out{})
				step("eval", c40Out{})
				step("apply", op.Output)
			default:
				step("begin", c40Out{})
				step("apply", op.Output)
			}
		}
		switch porcupine.CheckOperationsTimeout(c40Model2, h2, 30*time.Second) {
		case porcupine.Ok:
			rc.Probe("porcupine-illegal-but-two-point-ok")
			var lines []string
			for c := range ops {
				for _, op := range ops[c] {
					lines = append(lines, fmt.Sprintf("  client%d [%d,%d] %s -> err=%v val=%q", c, op.call, op.ret, op.in, op.out.Err, op.out.Val))
				}
			}
			if addWorld {
				rc.Fail("C40/service/add-world-not-atomic", "no serial order explains this history, but running each add-world-with-change as the function does it - delete the world, find or create it, apply the change, three separate steps under the read lock - does: two of them, or one and a DeleteWorld or an evaluation on the same world id, interleaved\n%s", strings.Join(lines, "\n"))
				return
			}
			rc.Fail("C40/service/stale-apply", "no serial order explains this history, but evaluating each change at one point and applying it at a later one (to the world obtained at evaluation) does: a change computed from a read was applied after the state it read had changed\n%s", strings.Join(lines, "\n"))
			return
		case porcupine.Unknown:
			rc.Probe("porcupine-unknown")
			return
		}
	}
	switch res {
	case porcupine.Ok:
		rc.Probe("porcupine-ok")
	case porcupine.Unknown:
		rc.Probe("porcupine-unknown")
	case porcupine.Illegal:
		var lines []string
		for c := range ops {
			for _, op := range ops[c] {
				lines = append(lines, fmt.Sprintf("  client%d [%d,%d] %s -> err=%v val=%q worlds=%q %s", c, op.call, op.ret, op.in, op.out.Err, op.out.Val, op.out.Worlds, op.out.ErrMsg))
			}
		}
		rc.Fail(name+"/not-linearizable", "no serial order of these %d requests (plus the final reads) explains the responses and the final worlds:\n%s", len(history), strings.Join(lines, "\n"))
	}
}

func contextBackground() context.Context { return context.Background() }
