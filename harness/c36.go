package harness

import (
	"fmt"

	"diagonal.works/b6"
	"diagonal.works/b6/ingest"
	"diagonal.works/b6/ingest/compact"
	"verif/simrt"
)

// C36: builds give the same world for any degree of parallelism.

func init() {
	register(&Scenario{
		Prop:      "C36",
		Preempt:   true,
		Run:       runC36,
		NeedsRace: true,
		Real: []string{
			"ingest.NewWorldFromSource (MemoryFeatureSource.Read, BasicWorldBuilder.Finish validate and index stages, ArrayIndex.Finish) with cores 2-16",
			"compact.BuildInMemory (all emit passes with per-goroutine buffers, the Validator queue, fillIndex / sortIndexIDs pools sized by NumCPU) with goroutines 2-4, then compact.NewWorldFromData",
		},
		Stubs: []string{"none; the reference is the same builder with one goroutine under the sequential schedule"},
		Assumptions: []string{
			"the compact builder's per-goroutine buffer size maxEncodedFeatureSize (78 MB shipped) is a knob set to 256 KB: no generated feature encodes to more than a few hundred bytes, and allocating goroutines x 2..4 x 78 MB per pass would dominate run time (deviation from shipped constants)",
			"'answer every query identically' is the full observation function over the bounded universe; Tokens() is compared as a set",
		},
		Rule: "one case = (builder, source with valid features plus invalid ones in a tape-chosen order, goroutine count) under one schedule of the build's goroutines and map orders; non-trivial = >=2 scheduling decisions with >=2 runnable tasks; distinct = distinct hash of the schedule trace",
	})
}

func runC36(rc *RC) {
	compactBuild := rc.Pick(3, 2) == 1
	g := newCityGen(rc)
	specs, bad := invalidSource(rc, g, compactBuild)
	ids := universe()
	full := obsOpts{}
	if compactBuild {
		const name = "C36/compact.BuildInMemory"
		rc.Phase(name)
		// every goroutine count from 2 to 16 (small counts more often: a build
		// with many goroutines clears many buffers)
		n := rc.Range(2, 4)
		if rc.Pct(40) {
			n = rc.Range(2, 16)
		}
		cpus := rc.Range(1, 4)
		rc.Knob("goroutines", n)
		rc.Knob("NumCPU", cpus)
		rc.Case("compact", n, cpus, fmt.Sprint(specs))
		build := func(goroutines int) (b6.World, error) {
			data, err := compact.BuildInMemory(ingest.MemoryFeatureSource(buildAll(specs)), &compact.Options{Goroutines: goroutines, PointsScratchOutputType: compact.OutputTypeMemory})
			if err != nil {
				return nil, err
			}
			return compact.NewWorldFromData(data)
		}
		var ref, cand b6.World
		var rerr, cerr error
		simrt.SetKnob("NumCPU", 1)
		if !rc.Guard(name+"/panic", func() { ref, rerr = build(1) }) {
			return
		}
		simrt.SetKnob("NumCPU", cpus)
		rc.Sim(name, func() {
			rc.Guard(name+"/panic", func() { cand, cerr = build(n) })
		})
		if rc.Failed() {
			return
		}
		c36Compare(rc, name, n, bad, ref, rerr, cand, cerr, ids, full)
		return
	}
	const name = "C36/ingest.NewWorldFromSource"
	rc.Phase(name)
	n := rc.Range(2, 16)
	rc.Knob("cores", n)
	rc.Case("basic", n, fmt.Sprint(specs))
	build := func(cores int) (b6.World, error) {
		return ingest.NewWorldFromSource(ingest.MemoryFeatureSource(buildAll(specs)), &ingest.BuildOptions{Cores: cores})
	}
	var ref, cand b6.World
	var rerr, cerr error
	if !rc.Guard(name+"/panic", func() { ref, rerr = build(1) }) {
		return
	}
	rc.Sim(name, func() {
		rc.Guard(name+"/panic", func() { cand, cerr = build(n) })
	})
	if rc.Failed() {
		return
	}
	c36Compare(rc, name, n, bad, ref, rerr, cand, cerr, ids, full)
}

func c36Compare(rc *RC, name string, n, bad int, ref b6.World, rerr error, cand b6.World, cerr error, ids []b6.FeatureID, full obsOpts) {
	if bad > 0 {
		rc.Fired("invalid-input")
	}
	rc.Configured("invalid-input")
	if (rerr == nil) != (cerr == nil) {
		rc.Fail(name+"/build-error-differs", "building with 1 goroutine returned %v, with %d goroutines %v", rerr, n, cerr)
		return
	}
	if rerr != nil {
		rc.Probe("both-builds-failed")
		return
	}
	a, b := Observe(ref, ids, full), Observe(cand, ids, full)
	if d := a.Diff(b, 1); len(d) > 0 {
		rc.Fail(name+"/worlds-differ:"+section(d[0]), "the world built with %d goroutines differs from the one built with 1:\n%s", n, a.DiffString(b, "1 goroutine ", fmt.Sprintf("%d goroutines", n)))
	}
}
