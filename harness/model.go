package harness

import (
	"fmt"
	"sort"
	"strings"

	"diagonal.works/b6"
)

// The per-feature map model of C12: what a "simple per-feature map" holds
// after the same operations. It is the generator's belief (g.specs), read
// through these helpers.

func modelTagsString(s *fspec) string {
	m := map[string]string{}
	for _, t := range s.Tags {
		m[t.K] = t.V
	}
	keys := make([]string, 0, len(m))
	for k := range m {
		keys = append(keys, k)
	}
	sort.Strings(keys)
	var b strings.Builder
	for _, k := range keys {
		fmt.Fprintf(&b, "%q=%q;", k, m[k])
	}
	return b.String()
}

func (s *fspec) tag(key string) (string, bool) {
	for _, t := range s.Tags {
		if t.K == key {
			return t.V, true
		}
	}
	return "", false
}

// modelMatches evaluates one of obsQueries() on a model feature.
func modelMatches(q b6.Query, s *fspec) bool {
	switch q := q.(type) {
	case b6.All:
		return true
	case b6.Keyed:
		_, ok := s.tag(q.Key)
		return ok
	case b6.Tagged:
		v, ok := s.tag(q.Key)
		return ok && v == q.Value.String()
	case b6.Typed:
		return s.ID.Type == q.Type && modelMatches(q.Query, s)
	case b6.Intersection:
		for _, sub := range q {
			if !modelMatches(sub, s) {
				return false
			}
		}
		return true
	case b6.Union:
		for _, sub := range q {
			if modelMatches(sub, s) {
				return true
			}
		}
		return false
	}
	panic(fmt.Sprintf("modelMatches: unsupported query %T", q))
}

// modelObs renders the has / tags / find / each-tags sections from the model.
func modelObs(g *cityGen, ids []b6.FeatureID) Obs {
	out := Obs{}
	for _, id := range ids {
		s := g.specs[id]
		out["has/"+id.String()] = fmt.Sprint(s != nil)
		if s == nil {
			out["tags/"+id.String()] = "nil"
		} else {
			out["tags/"+id.String()] = modelTagsString(s)
		}
	}
	sorted := g.sortedIDs(b6.FeatureTypeInvalid)
	for _, q := range obsQueries() {
		if !isTagQuery(q) {
			continue
		}
		var b strings.Builder
		for _, id := range sorted {
			if modelMatches(q, g.specs[id]) {
				b.WriteString(id.String())
				b.WriteString(" ")
			}
		}
		out["find/"+q.String()] = b.String()
	}
	var lines []string
	for _, id := range sorted {
		lines = append(lines, id.String()+" "+modelTagsString(g.specs[id]))
	}
	sort.Strings(lines)
	out["eachtags"] = strings.Join(lines, "\n")
	return out
}

// eachTags enumerates the world and renders "id tags" lines, sorted, with a
// duplicate counter (the enumeration section C12 compares with the model).
func eachTags(w b6.World, goroutines int) string {
	if goroutines < 1 {
		goroutines = 1
	}
	per := make([][]string, goroutines+1)
	err := w.EachFeature(func(f b6.Feature, g int) error {
		if g < 0 || g > goroutines {
			g = goroutines
		}
		per[g] = append(per[g], f.FeatureID().String()+" "+tagsString(f))
		return nil
	}, &b6.EachFeatureOptions{Goroutines: goroutines})
	var all []string
	for _, p := range per {
		all = append(all, p...)
	}
	sort.Strings(all)
	s := strings.Join(all, "\n")
	dup := 0
	for i := 1; i < len(all); i++ {
		if strings.SplitN(all[i], " ", 2)[0] == strings.SplitN(all[i-1], " ", 2)[0] {
			dup++
		}
	}
	if dup > 0 {
		s += fmt.Sprintf("\nDUPLICATE-IDS=%d", dup)
	}
	if err != nil {
		s += "\nERR=" + err.Error()
	}
	return s
}

// isTagQuery reports whether q is built from tag predicates only. The model
// is compared on those: (all) and (feature-type T (all)) depend on which
// features the index holds at all (points with no tags are left out of the
// index on purpose), which is not tag search.
func isTagQuery(q b6.Query) bool {
	switch q := q.(type) {
	case b6.Keyed, b6.Tagged:
		return true
	case b6.Typed:
		return isTagQuery(q.Query)
	case b6.Intersection:
		for _, sub := range q {
			if !isTagQuery(sub) {
				return false
			}
		}
		return true
	case b6.Union:
		for _, sub := range q {
			if !isTagQuery(sub) {
				return false
			}
		}
		return true
	}
	return false
}
