package harness

import (
	"fmt"
	"sort"
	"strings"

	"diagonal.works/b6"
	"diagonal.works/b6/ingest"
	"github.com/golang/geo/s2"
)

// The tiny city (DESIGN.md §6): a bounded universe of ids so that every
// observation can enumerate it, and geometry on a small grid so that valid
// rings are easy to make and well inside one S2 face.

const (
	nsA = b6.Namespace("diagonal.works/test/a")
	nsB = b6.Namespace("diagonal.works/test/b")

	gridCols  = 6
	gridRows  = 5
	maxPoints = gridCols * gridRows // 30
	maxPaths  = 12
	maxAreas  = 6
	maxRels   = 6
	maxCols   = 4
)

func pointID(i int) b6.FeatureID {
	return b6.FeatureID{Type: b6.FeatureTypePoint, Namespace: nsA, Value: uint64(i + 1)}
}
func pathID(i int) b6.FeatureID {
	return b6.FeatureID{Type: b6.FeatureTypePath, Namespace: nsA, Value: uint64(i + 1)}
}
func areaID(i int) b6.FeatureID {
	return b6.FeatureID{Type: b6.FeatureTypeArea, Namespace: nsA, Value: uint64(i + 1)}
}
func relID(i int) b6.FeatureID {
	return b6.FeatureID{Type: b6.FeatureTypeRelation, Namespace: nsB, Value: uint64(i + 1)}
}
func colID(i int) b6.FeatureID {
	return b6.FeatureID{Type: b6.FeatureTypeCollection, Namespace: nsB, Value: uint64(i + 1)}
}

// universe lists every id a run can ever contain.
func universe() []b6.FeatureID {
	var ids []b6.FeatureID
	for i := 0; i < maxPoints+4; i++ { // maxPoints, +1: never created (missing points); +2, +3: addable later
		ids = append(ids, pointID(i))
	}
	for i := 0; i < maxPaths; i++ {
		ids = append(ids, pathID(i))
	}
	for i := 0; i < maxAreas; i++ {
		ids = append(ids, areaID(i))
	}
	for i := 0; i < maxRels; i++ {
		ids = append(ids, relID(i))
	}
	for i := 0; i < maxCols; i++ {
		ids = append(ids, colID(i))
	}
	return ids
}

func gridE7(i int, jitter int) (int32, int32) {
	r, c := i/gridCols, i%gridCols
	lat := int32(515350000 + r*5000 + (jitter%7)*11)
	lng := int32(-1250000 + c*8000 + (jitter%5)*13)
	return lat, lng
}

func llFromE7(lat, lng int32) s2.LatLng {
	return s2.LatLngFromDegrees(float64(lat)/1e7, float64(lng)/1e7)
}

type tagKV struct{ K, V string }

type pathMember struct {
	Point int      // grid point index, or -1
	LL    [2]int32 // when Point < 0
}

type relMember struct {
	ID   b6.FeatureID
	Role string
}

// fspec is the generator's own description of a feature; build() turns it
// into a fresh ingest.Feature value each time it is called.
type fspec struct {
	ID   b6.FeatureID
	Tags []tagKV
	// point
	Lat, Lng int32
	// path
	Path []pathMember
	// area: one entry per polygon; either path ids or an explicit ring of grid points
	AreaPaths [][]b6.FeatureID
	AreaRings [][]int
	// relation
	Members []relMember
	// collection
	CKeys []any
	CVals []any
}

func (s *fspec) clone() *fspec {
	c := *s
	c.Tags = append([]tagKV(nil), s.Tags...)
	c.Path = append([]pathMember(nil), s.Path...)
	c.AreaPaths = nil
	for _, p := range s.AreaPaths {
		c.AreaPaths = append(c.AreaPaths, append([]b6.FeatureID(nil), p...))
	}
	c.AreaRings = nil
	for _, p := range s.AreaRings {
		c.AreaRings = append(c.AreaRings, append([]int(nil), p...))
	}
	c.Members = append([]relMember(nil), s.Members...)
	c.CKeys = append([]any(nil), s.CKeys...)
	c.CVals = append([]any(nil), s.CVals...)
	return &c
}

func b6tags(tags []tagKV) b6.Tags {
	out := make(b6.Tags, 0, len(tags)+1)
	for _, t := range tags {
		out = append(out, b6.Tag{Key: t.K, Value: b6.NewStringExpression(t.V)})
	}
	return out
}

func (s *fspec) build() ingest.Feature {
	switch s.ID.Type {
	case b6.FeatureTypePoint:
		f := &ingest.GenericFeature{ID: s.ID, Tags: b6tags(s.Tags)}
		f.Tags = append(f.Tags, b6.Tag{Key: b6.PointTag, Value: b6.NewPointExpressionFromLatLng(llFromE7(s.Lat, s.Lng))})
		return f
	case b6.FeatureTypePath:
		f := &ingest.GenericFeature{ID: s.ID, Tags: b6tags(s.Tags)}
		exprs := make([]b6.AnyExpression, 0, len(s.Path))
		for _, m := range s.Path {
			if m.Point >= 0 {
				exprs = append(exprs, b6.FeatureIDExpression(pointID(m.Point)))
			} else {
				exprs = append(exprs, b6.PointExpression(llFromE7(m.LL[0], m.LL[1])))
			}
		}
		f.Tags = append(f.Tags, b6.Tag{Key: b6.PathTag, Value: b6.NewExpressions(exprs)})
		return f
	case b6.FeatureTypeArea:
		n := len(s.AreaPaths)
		a := ingest.NewAreaFeature(n)
		a.AreaID = s.ID.ToAreaID()
		a.Tags = b6tags(s.Tags)
		for i := 0; i < n; i++ {
			if s.AreaPaths[i] != nil {
				a.SetPathIDs(i, append([]b6.FeatureID(nil), s.AreaPaths[i]...))
			} else {
				pts := make([]s2.Point, 0, len(s.AreaRings[i]))
				for _, g := range s.AreaRings[i] {
					lat, lng := gridE7(g, 0)
					pts = append(pts, s2.PointFromLatLng(llFromE7(lat, lng)))
				}
				a.SetPolygon(i, s2.PolygonFromLoops([]*s2.Loop{s2.LoopFromPoints(pts)}))
			}
		}
		return a
	case b6.FeatureTypeRelation:
		r := ingest.NewRelationFeature(len(s.Members))
		r.RelationID = s.ID.ToRelationID()
		r.Tags = b6tags(s.Tags)
		for i, m := range s.Members {
			r.Members[i] = b6.RelationMember{ID: m.ID, Role: m.Role}
		}
		return r
	case b6.FeatureTypeCollection:
		c := &ingest.CollectionFeature{CollectionID: s.ID.ToCollectionID(), Tags: b6tags(s.Tags)}
		c.Keys = append([]any(nil), s.CKeys...)
		c.Values = append([]any(nil), s.CVals...)
		return c
	}
	panic("fspec.build: unknown type")
}

func (s *fspec) String() string {
	var b strings.Builder
	fmt.Fprintf(&b, "%s", s.ID)
	switch s.ID.Type {
	case b6.FeatureTypePoint:
		fmt.Fprintf(&b, "@%d,%d", s.Lat, s.Lng)
	case b6.FeatureTypePath:
		b.WriteString("[")
		for i, m := range s.Path {
			if i > 0 {
				b.WriteString(" ")
			}
			if m.Point >= 0 {
				fmt.Fprintf(&b, "p%d", m.Point+1)
			} else {
				fmt.Fprintf(&b, "ll(%d,%d)", m.LL[0], m.LL[1])
			}
		}
		b.WriteString("]")
	case b6.FeatureTypeArea:
		for i := range s.AreaPaths {
			if s.AreaPaths[i] != nil {
				fmt.Fprintf(&b, " poly%d=paths%v", i, s.AreaPaths[i])
			} else {
				fmt.Fprintf(&b, " poly%d=ring%v", i, s.AreaRings[i])
			}
		}
	case b6.FeatureTypeRelation:
		for _, m := range s.Members {
			fmt.Fprintf(&b, " %s(%s)", m.ID, m.Role)
		}
	case b6.FeatureTypeCollection:
		for i := range s.CKeys {
			fmt.Fprintf(&b, " %v=%v", s.CKeys[i], s.CVals[i])
		}
	}
	if len(s.Tags) > 0 {
		fmt.Fprintf(&b, " tags%v", s.Tags)
	}
	return b.String()
}

// ---------------------------------------------------------------- tag pools

var plainKeys = []string{"name", "levels", "note"}
var searchKeys = []string{"#amenity", "#building", "#highway"}
var flagKeys = []string{"@flag"}

var plainValues = []string{"x", "7", "3.5", "51.5, -0.1", "/point/openstreetmap.org/node/1", "", "two words", "a=b", `q"uote`, "yes", "point/openstreetmap.org/node/0123", "1;2", "-0.0"}
var searchValues = []string{"cafe", "yes", "path", "7", "bus stop"}

func (g *cityGen) tagKey(plainOnly, searchOnly bool) string {
	rc := g.rc
	if plainOnly {
		return plainKeys[rc.Draw(len(plainKeys))]
	}
	if searchOnly {
		return searchKeys[rc.Draw(len(searchKeys))]
	}
	switch rc.Pick(5, 5, 1) {
	case 0:
		return plainKeys[rc.Draw(len(plainKeys))]
	case 1:
		return searchKeys[rc.Draw(len(searchKeys))]
	}
	return flagKeys[0]
}

func isSearchKey(k string) bool { return strings.HasPrefix(k, "#") || strings.HasPrefix(k, "@") }

func (g *cityGen) tagValue(key string) string {
	rc := g.rc
	if g.uniqueValues {
		g.valueCounter++
		return fmt.Sprintf("v%d", g.valueCounter)
	}
	if strings.HasPrefix(key, "#") {
		return searchValues[rc.Draw(len(searchValues))]
	}
	if !g.trickyValues {
		return []string{"x", "yes", "two words", "n1", "n2"}[rc.Draw(5)]
	}
	return plainValues[rc.Draw(len(plainValues))]
}

func (g *cityGen) someTags(max int) []tagKV {
	n := g.rc.Draw(max + 1)
	var tags []tagKV
	seen := map[string]bool{}
	for i := 0; i < n; i++ {
		k := g.tagKey(false, false)
		if seen[k] {
			continue
		}
		seen[k] = true
		tags = append(tags, tagKV{k, g.tagValue(k)})
	}
	return tags
}

// ---------------------------------------------------------------- city generator

type cityGen struct {
	rc           *RC
	uniqueValues bool
	trickyValues bool
	// mixedCollectionKeys: collections may also have string / number keys
	mixedCollectionKeys bool
	valueCounter        int
	inBase              bool
	// the compact builder does not store collection features at all
	noBaseCollections bool
	// areas may mix path-based and explicit polygons (never for compact)
	mixedAreas bool
	// the generator's belief of what exists (last successfully added spec)
	specs map[b6.FeatureID]*fspec
}

func newCityGen(rc *RC) *cityGen {
	return &cityGen{rc: rc, specs: map[b6.FeatureID]*fspec{}}
}

func (g *cityGen) sortedIDs(t b6.FeatureType) []b6.FeatureID {
	var ids []b6.FeatureID
	for id := range g.specs {
		if t == b6.FeatureTypeInvalid || id.Type == t {
			ids = append(ids, id)
		}
	}
	sort.Slice(ids, func(i, j int) bool { return ids[i].Less(ids[j]) })
	return ids
}

func (g *cityGen) pointSpec(i int, jitter int) *fspec {
	lat, lng := gridE7(i, jitter)
	return &fspec{ID: pointID(i), Lat: lat, Lng: lng}
}

// rect returns grid indices of a counter-clockwise rectangle (SW, SE, NE, NW).
func rect(r0, c0, r1, c1 int) []int {
	return []int{r0*gridCols + c0, r0*gridCols + c1, r1*gridCols + c1, r1*gridCols + c0}
}

func (g *cityGen) randRect() []int {
	rc := g.rc
	r0 := rc.Draw(gridRows - 1)
	r1 := r0 + 1 + rc.Draw(gridRows-1-r0)
	c0 := rc.Draw(gridCols - 1)
	c1 := c0 + 1 + rc.Draw(gridCols-1-c0)
	return rect(r0, c0, r1, c1)
}

// closedRing makes a valid CCW closed path over grid points that exist.
func (g *cityGen) closedRing(id b6.FeatureID) *fspec {
	corners := g.randRect()
	s := &fspec{ID: id}
	for _, c := range corners {
		s.Path = append(s.Path, pathMember{Point: c})
	}
	s.Path = append(s.Path, pathMember{Point: corners[0]})
	return s
}

func (g *cityGen) openPath(id b6.FeatureID) *fspec {
	rc := g.rc
	n := rc.Range(2, 5)
	s := &fspec{ID: id}
	used := map[int]bool{}
	mixed := !g.inBase && rc.Pct(25) // compact worlds cannot hold mixed paths: keep them out of base cities
	for len(s.Path) < n {
		p := rc.Draw(maxPoints)
		for used[p] { // terminates: n <= 5 < maxPoints (and a zero tape must not spin)
			p = (p + 7) % maxPoints
		}
		// sometimes route the path over a point that was added later (not in
		// the base city): exported files must then bring the point first
		for _, extra := range []int{maxPoints + 2, maxPoints + 3} {
			if !g.inBase && g.specs[pointID(extra)] != nil && !used[extra] && rc.Pct(30) {
				p = extra
			}
		}
		used[p] = true
		// Mixed paths always start with a lat/lng element: b6 decides
		// "closed" by comparing the first path element with the k-th (k =
		// number of id references), which is meaningless for mixed paths; a
		// leading lat/lng makes them unambiguously open.
		if mixed && (len(s.Path) == 0 || rc.Pct(40)) {
			lat, lng := gridE7(p, 3)
			s.Path = append(s.Path, pathMember{Point: -1, LL: [2]int32{lat + 170, lng + 190}})
		} else {
			s.Path = append(s.Path, pathMember{Point: p})
		}
	}
	return s
}

// invalidPath returns a path spec that validation must reject, and why.
func (g *cityGen) invalidPath(id b6.FeatureID) (*fspec, string) {
	rc := g.rc
	switch rc.Draw(5) {
	case 4:
		// a ring whose closing vertex is there twice (degenerate last edge)
		c := g.randRect()
		s := &fspec{ID: id}
		for _, p := range []int{c[0], c[1], c[2], c[3], c[0], c[0]} {
			s.Path = append(s.Path, pathMember{Point: p})
		}
		return s, "ring that repeats its closing vertex"
	case 0:
		return &fspec{ID: id, Path: []pathMember{{Point: rc.Draw(maxPoints)}}}, "one-point path"
	case 1:
		s := g.openPath(id)
		s.Path[len(s.Path)-1] = pathMember{Point: maxPoints + rc.Draw(2)} // never created
		return s, "path over a missing point"
	case 2:
		s := g.closedRing(id)
		// reverse: clockwise
		for i, j := 0, len(s.Path)-1; i < j; i, j = i+1, j-1 {
			s.Path[i], s.Path[j] = s.Path[j], s.Path[i]
		}
		return s, "clockwise ring"
	default:
		// ring with a repeated adjacent vertex (degenerate edge)
		c := g.randRect()
		s := &fspec{ID: id}
		for _, p := range []int{c[0], c[1], c[1], c[2], c[3], c[0]} {
			s.Path = append(s.Path, pathMember{Point: p})
		}
		return s, "ring with a duplicate vertex"
	}
}

func (g *cityGen) closedPathIDs() []b6.FeatureID {
	var ids []b6.FeatureID
	for _, id := range g.sortedIDs(b6.FeatureTypePath) {
		s := g.specs[id]
		if n := len(s.Path); n >= 4 && s.Path[0].Point >= 0 && s.Path[0] == s.Path[n-1] {
			ids = append(ids, id)
		}
	}
	return ids
}

func (g *cityGen) areaSpec(id b6.FeatureID) *fspec {
	rc := g.rc
	closed := g.closedPathIDs()
	s := &fspec{ID: id}
	n := 1
	if rc.Pct(25) {
		n = 2
	}
	// All polygons of one area use the same representation (all by path id
	// or all explicit): a mixed area makes the compact builder panic
	// (PolygonGeometryReferences.FromPathIDs indexes an empty slice), which
	// belongs to the compact round-trip properties (not claimed here); see
	// DESIGN.md "observations outside the claimed properties".
	byPath := len(closed) > 0 && !rc.Pct(25)
	for i := 0; i < n; i++ {
		// outside base cities (features added to mutable worlds or offered to
		// the in-memory builder) polygons of one area may mix representations
		mixedHere := g.mixedAreas && n > 1 && rc.Pct(50)
		usePath := byPath
		if mixedHere {
			usePath = len(closed) > 0 && i%2 == rc.Draw(2)
		}
		if usePath {
			s.AreaPaths = append(s.AreaPaths, []b6.FeatureID{closed[rc.Draw(len(closed))]})
			s.AreaRings = append(s.AreaRings, nil)
		} else {
			s.AreaPaths = append(s.AreaPaths, nil)
			s.AreaRings = append(s.AreaRings, g.randRect())
		}
	}
	return s
}

func (g *cityGen) anyExistingID() (b6.FeatureID, bool) {
	ids := g.sortedIDs(b6.FeatureTypeInvalid)
	if len(ids) == 0 {
		return b6.FeatureID{}, false
	}
	// bias towards paths routed over points that were added after the base
	// city: chains of new features (new point <- new path <- relations) are
	// where the order of exported changes and copy-up bookkeeping matter
	if over := g.pathsOverNewPoints(); len(over) > 0 && g.rc.Pct(35) {
		return over[g.rc.Draw(len(over))], true
	}
	return ids[g.rc.Draw(len(ids))], true
}

func (g *cityGen) pathsOverNewPoints() []b6.FeatureID {
	var out []b6.FeatureID
	for _, id := range g.sortedIDs(b6.FeatureTypePath) {
		for _, m := range g.specs[id].Path {
			if m.Point >= maxPoints {
				out = append(out, id)
				break
			}
		}
	}
	return out
}

func (g *cityGen) relationSpec(id b6.FeatureID, allowCycles bool) *fspec {
	rc := g.rc
	s := &fspec{ID: id}
	n := rc.Range(1, 3)
	for i := 0; i < n; i++ {
		var m b6.FeatureID
		if allowCycles && rc.Pct(35) {
			m = relID(rc.Draw(maxRels)) // maybe itself, maybe a relation that refers back
		} else if rels := g.sortedIDs(b6.FeatureTypeRelation); len(rels) > 0 && rc.Pct(30) {
			// a member another relation has too
			m = pointID(rc.Draw(maxPoints))
			if o := g.specs[rels[rc.Draw(len(rels))]]; o != nil && len(o.Members) > 0 {
				if x := o.Members[rc.Draw(len(o.Members))].ID; allowCycles || x.Type != b6.FeatureTypeRelation {
					m = x
				}
			}
		} else if x, ok := g.anyExistingID(); ok {
			m = x
		} else {
			m = pointID(rc.Draw(maxPoints))
		}
		if !allowCycles && m.Type == b6.FeatureTypeRelation {
			m = pointID(rc.Draw(maxPoints))
		}
		s.Members = append(s.Members, relMember{ID: m, Role: []string{"", "outer", "stop"}[rc.Draw(3)]})
	}
	return s
}

func (g *cityGen) collectionSpec(id b6.FeatureID) *fspec {
	rc := g.rc
	s := &fspec{ID: id}
	n := rc.Range(1, 3)
	for i := 0; i < n; i++ {
		if x, ok := g.anyExistingID(); ok && !rc.Pct(20) && x.Type != b6.FeatureTypeCollection {
			s.CKeys = append(s.CKeys, x)
		} else {
			s.CKeys = append(s.CKeys, pointID(rc.Draw(maxPoints)))
		}
		s.CVals = append(s.CVals, fmt.Sprintf("c%d", i))
	}
	if g.mixedCollectionKeys && rc.Pct(40) {
		// keys of other kinds next to the feature ids (lookups by key must
		// still find them)
		for k := rc.Range(1, 2); k > 0; k-- {
			s.CKeys = append(s.CKeys, []any{"total", 7, 2.5, "a b"}[rc.Draw(4)])
			s.CVals = append(s.CVals, []any{"sum", 12, "x"}[rc.Draw(3)])
		}
	}
	return s
}

// baseCity generates the features of a base world: all grid points, then
// paths, areas, relations, collections. Every feature is valid.
func (g *cityGen) baseCity(rich bool) []*fspec {
	rc := g.rc
	g.inBase = true
	defer func() { g.inBase = false }()
	var out []*fspec
	add := func(s *fspec) {
		s.Tags = g.someTags(3)
		g.specs[s.ID] = s
		out = append(out, s)
	}
	for i := 0; i < maxPoints; i++ {
		add(g.pointSpec(i, 0))
	}
	np := rc.Range(2, 7)
	for i := 0; i < np; i++ {
		if i < 2 || rc.Pct(45) {
			add(g.closedRing(pathID(i)))
		} else {
			add(g.openPath(pathID(i)))
		}
	}
	na := rc.Range(1, 3)
	for i := 0; i < na; i++ {
		add(g.areaSpec(areaID(i)))
	}
	if rich {
		nr := rc.Range(0, 3)
		for i := 0; i < nr; i++ {
			add(g.relationSpec(relID(i), false))
		}
		nc := rc.Range(0, 2)
		if g.noBaseCollections {
			nc = 0 // the compact builder silently drops collections
		}
		for i := 0; i < nc; i++ {
			add(g.collectionSpec(colID(i)))
		}
	}
	return out
}

func buildAll(specs []*fspec) []ingest.Feature {
	out := make([]ingest.Feature, len(specs))
	for i, s := range specs {
		out[i] = s.build()
	}
	return out
}

// newBasicWorld builds the in-memory base world from specs (fixture code:
// simulator inactive, one core).
func newBasicWorld(specs []*fspec) (b6.World, error) {
	return ingest.NewWorldFromSource(ingest.MemoryFeatureSource(buildAll(specs)), &ingest.BuildOptions{Cores: 1})
}
