package harness

import (
	"fmt"
	"math"
	"sort"
	"strings"

	"diagonal.works/b6/osm"
)

// C27: OSM PBF files read back what was written, for any number of reader
// cores.

func init() {
	register(&Scenario{
		Prop:      "C27",
		Preempt:   true,
		Run:       runC27,
		NeedsRace: true,
		Real: []string{
			"osm.NewWriter / WriteNode / WriteWay / WriteRelation / Flush (dense nodes, delta coding, string tables, zlib, protobuf)",
			"osm.ReadPBFWithOptions with Cores 1-8: the blob reader goroutine, the decoder goroutines, their channel, select and WaitGroup, all under the simulated scheduler",
		},
		Stubs: []string{"simulated disk (harness): an in-memory file; writes recorded as issued; reads served in tape-chosen fragments (1 byte .. whole request), biased to split length prefixes and blob headers"},
		Assumptions: []string{
			"for Cores == 1 'the same order' is exact sequence equality; for Cores > 1 concurrent callbacks have no global order, so the demand is the strongest the format supports: every reader goroutine's stream is a subsequence of the written order, and the multiset of elements is equal",
			"node coordinates must match within one granularity step (1e-7 degrees)",
			"tag keys, values and roles may be empty strings",
		},
		Rule: "one case = (element sequence with type interleavings, tag/role strings incl. empty and repeated, negative and large ids, extreme coordinates, occasionally >8000 elements of one type so that one group overflows into a second block; reader cores; read fragmentation) under one schedule; non-trivial = >=2 scheduling decisions with >=2 runnable tasks; distinct = distinct hash of the schedule trace",
	})
}

func elemString(e osm.Element) string {
	var b strings.Builder
	switch e := e.(type) {
	case *osm.Node:
		fmt.Fprintf(&b, "n%d", e.ID)
	case *osm.Way:
		fmt.Fprintf(&b, "w%d%v", e.ID, e.Nodes)
	case *osm.Relation:
		fmt.Fprintf(&b, "r%d[", e.ID)
		for _, m := range e.Members {
			fmt.Fprintf(&b, "%d:%d:%q ", m.Type, m.ID, m.Role)
		}
		b.WriteString("]")
	}
	for _, t := range e.GetTags() {
		fmt.Fprintf(&b, " %q=%q", t.Key, t.Value)
	}
	return b.String()
}

type readElem struct {
	s        string
	lat, lng float64
	isNode   bool
	g        int
}

func runC27(rc *RC) {
	const name = "C27/pbf"
	rc.Phase(name)
	keys := []string{"highway", "name", "building", "ref"}
	vals := []string{"", "yes", "primary", "yes", "Granary Square", "ünïcode", "a=b"}
	roles := []string{"", "outer", "inner", "stop", "outer"}
	bigIDs := []int64{1, 2, 3, 1 << 40, -1, -(1 << 35), 1<<62 - 1, 17}
	n := rc.Range(1, 60)
	big := rc.Pct(4)
	var elems []osm.Element
	var want []readElem
	tags := func() osm.Tags {
		var t osm.Tags
		for k := rc.Draw(4); k > 0; k-- {
			key := keys[rc.Draw(len(keys))]
			if rc.Pct(6) {
				key = "" // an empty key is a string like any other to the writer
			}
			t = append(t, osm.Tag{Key: key, Value: vals[rc.Draw(len(vals))]})
		}
		return t
	}
	id := func() int64 {
		if rc.Pct(30) {
			return bigIDs[rc.Draw(len(bigIDs))]
		}
		return int64(rc.Draw(5000)) + 1
	}
	// element ids are unique per type, as in OSM (references to them are not)
	usedIDs := map[[2]int64]bool{}
	uid := func(kind int) int64 {
		v := id()
		for usedIDs[[2]int64{int64(kind), v}] {
			v = v/2 + 7919 + int64(len(usedIDs))
		}
		usedIDs[[2]int64{int64(kind), v}] = true
		return v
	}
	kind := rc.Draw(3)
	for i := 0; i < n; i++ {
		if rc.Pct(35) {
			kind = rc.Draw(3) // type change: the writer starts a new block
		}
		switch kind {
		case 0:
			lat := []float64{0, 51.5, -89.9999999, 89.9999999, 51.5350001, -0.0000001}[rc.Draw(6)]
			lng := []float64{0, -0.125, 179.9999999, -179.9999999, 0.0000001, 13.4}[rc.Draw(6)]
			e := &osm.Node{ID: osm.NodeID(uid(0)), Location: osm.LatLng{Lat: lat, Lng: lng}, Tags: tags()}
			elems = append(elems, e)
		case 1:
			e := &osm.Way{ID: osm.WayID(uid(1)), Tags: tags()}
			for k := rc.Range(0, 5); k > 0; k-- {
				e.Nodes = append(e.Nodes, osm.NodeID(id()))
			}
			elems = append(elems, e)
		default:
			e := &osm.Relation{ID: osm.RelationID(uid(2)), Tags: tags()}
			for k := rc.Range(0, 4); k > 0; k-- {
				e.Members = append(e.Members, osm.Member{Type: osm.ElementType(rc.Draw(3)), ID: osm.AnyID(id()), Role: roles[rc.Draw(len(roles))]})
			}
			elems = append(elems, e)
		}
	}
	if big {
		// more nodes than one group holds: the writer must start a second block by itself
		at := rc.Draw(len(elems) + 1)
		var bulk []osm.Element
		bulkKind := rc.Pick(2, 1, 1)
		for i, m := 0, 8000+rc.Range(1, 40); i < m; i++ {
			switch bulkKind {
			case 0:
				bulk = append(bulk, &osm.Node{ID: osm.NodeID(1000000 + i), Location: osm.LatLng{Lat: 51.5 + float64(i)*1e-6, Lng: -0.1}})
			case 1:
				w := &osm.Way{ID: osm.WayID(1000000 + i), Nodes: []osm.NodeID{osm.NodeID(i + 1), osm.NodeID(i + 2)}}
				if i%1000 == 999 {
					w.Tags = osm.Tags{{Key: "highway", Value: "primary"}}
				}
				bulk = append(bulk, w)
			default:
				bulk = append(bulk, &osm.Relation{ID: osm.RelationID(1000000 + i), Members: []osm.Member{
					{Type: osm.ElementTypeNode, ID: osm.AnyID(i + 1), Role: roles[(i/3)%len(roles)]},
					{Type: osm.ElementTypeWay, ID: osm.AnyID(i + 7), Role: roles[(i/5)%len(roles)]},
				}})
			}
		}
		elems = append(elems[:at:at], append(bulk, elems[at:]...)...)
		rc.Probe("pbf-group-overflow")
	}
	for _, e := range elems {
		w := readElem{s: elemString(e)}
		if nd, ok := e.(*osm.Node); ok {
			w.isNode, w.lat, w.lng = true, nd.Location.Lat, nd.Location.Lng
		}
		want = append(want, w)
	}
	cores := []int{1, 1, 2, 3, 4, 8}[rc.Draw(6)]
	readMode := rc.Draw(4)
	rc.Knob("cores", cores)
	rc.Knob("read-mode", readMode)
	rc.Case(len(elems), cores, readMode, want[0].s)
	rc.Notef("%d elements, cores=%d, read mode %d; first: %s", len(elems), cores, readMode, want[0].s)

	// I/O error configuration (15% of runs, apart from the fault-free one):
	// the disk fills up while writing, or a sector is bad while reading;
	// neither may be reported as success
	ioFault := rc.Pick(17, 1, 2)
	rc.Knob("io-fault", ioFault)
	var disk chunkWriter
	if ioFault == 1 {
		disk.hasFail, disk.failAt = true, rc.Draw(20+len(elems)*6)
		rc.Configured("disk-full")
	}
	var werr error
	if !rc.Guard(name+"/panic", func() {
		var w *osm.Writer
		if w, werr = osm.NewWriter(&disk); werr != nil {
			return
		}
		for _, e := range elems {
			if werr = w.WriteElement(e); werr != nil {
				return
			}
		}
		werr = w.Flush()
	}) {
		return
	}
	if ioFault == 1 {
		if disk.failed {
			rc.Fired("disk-full")
			if werr == nil {
				rc.Fail(name+"/write-reported-success-on-full-disk", "the disk was full after %d bytes (later writes returned an error) but every WriteElement and Flush returned nil", disk.failAt)
			}
		}
		if disk.failed || werr != nil {
			return // no complete file to read back
		}
	}
	if werr != nil {
		rc.Fail(name+"/write-failed", "writing %d elements failed: %v", len(elems), werr)
		return
	}
	if disk.writes > 3 {
		rc.Probe("pbf-multi-block")
	}
	rc.Configured("short-read")
	sr := &shortReader{rc: rc, data: disk.buf.Bytes(), mode: readMode}
	if ioFault == 2 {
		sr.hasFail, sr.failAt = true, rc.Draw(disk.buf.Len())
		rc.Configured("read-error")
	}
	per := make([][]readElem, cores+1)
	var rerr error
	rc.Sim(name, func() {
		rerr = osm.ReadPBFWithOptions(sr, func(e osm.Element, g int) error {
			r := readElem{s: elemString(e), g: g}
			if nd, ok := e.(*osm.Node); ok {
				r.isNode, r.lat, r.lng = true, nd.Location.Lat, nd.Location.Lng
			}
			c27Append(per, g, cores, r)
			return nil
		}, osm.ReadOptions{Cores: cores})
	})
	if sr.n > 0 {
		rc.Fired("short-read")
	}
	if ioFault == 2 && sr.failed {
		rc.Fired("read-error")
		if rerr == nil {
			rc.Fail(name+"/read-reported-success-after-read-error", "reading the %d-byte file failed with an I/O error at byte %d but ReadPBFWithOptions (cores=%d) returned nil", disk.buf.Len(), sr.failAt, cores)
		}
		return // elements of the blocks before the bad sector were delivered; nothing more to compare
	}
	if rerr != nil {
		rc.Fail(name+"/read-failed", "reading back %d elements with %d cores failed: %v", len(elems), cores, rerr)
		return
	}
	// multiset
	count := map[string]int{}
	for _, w := range want {
		count[w.s]++
	}
	got := 0
	for _, p := range per {
		for _, r := range p {
			count[r.s]--
			got++
		}
	}
	var missing, extra []string
	for s, c := range count {
		if c > 0 {
			missing = append(missing, fmt.Sprintf("%s (x%d)", s, c))
		} else if c < 0 {
			extra = append(extra, fmt.Sprintf("%s (x%d)", s, -c))
		}
	}
	sort.Strings(missing)
	sort.Strings(extra)
	if len(missing)+len(extra) > 0 {
		rc.Fail(name+"/elements-differ", "wrote %d elements, read %d (cores=%d); written but not read: %v; read but not written: %v", len(want), got, cores, clipList(missing), clipList(extra))
		return
	}
	// order: each goroutine's stream is a subsequence of the written order
	for g, p := range per {
		j := 0
		for i, r := range p {
			for j < len(want) && want[j].s != r.s {
				j++
			}
			if j == len(want) {
				rc.Fail(name+"/order-differs", "goroutine %d (of %d cores) received element %d (%s) out of the written order", g, cores, i, r.s)
				return
			}
			if r.isNode {
				if math.Abs(r.lat-want[j].lat) > 1.0000001e-7 || math.Abs(r.lng-want[j].lng) > 1.0000001e-7 {
					rc.Fail(name+"/coordinates-differ", "node %s written at %.9f,%.9f read back at %.9f,%.9f (more than one granularity step)", r.s, want[j].lat, want[j].lng, r.lat, r.lng)
					return
				}
			}
			j++
		}
	}
}

// c27Append runs on reader goroutines (tasks): each goroutine only appends
// to its own slot.
//
//go:norace
func c27Append(per [][]readElem, g, cores int, r readElem) {
	if g < 0 || g >= cores {
		g = cores
	}
	per[g] = append(per[g], r)
}

func clipList(l []string) []string {
	if len(l) > 5 {
		return append(l[:5:5], fmt.Sprintf("… (%d more)", len(l)-5))
	}
	return l
}
