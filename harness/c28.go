package harness

import (
	"context"
	"errors"
	"fmt"

	"diagonal.works/b6"
	"diagonal.works/b6/encoding"
	"diagonal.works/b6/ingest"
	"diagonal.works/b6/osm"
	"verif/simrt"
)

// C28: a callback error stops streaming and is reported.

func init() {
	register(&Scenario{
		Prop:      "C28",
		Preempt:   true,
		Run:       runC28,
		NeedsRace: true,
		Real: []string{
			"encoding.Uint64Map.EachItem with its goroutine pool, channels and select",
			"EachFeature of the basic world (ingest.EachFeature / eachIngestFeature / feedFeatures), of MutableOverlayWorld (overlay then base) and of the compact world (FeaturesByID.EachFeature over Uint64Map.EachItem)",
			"ingest.MemoryFeatureSource.Read, ingest.ParalleliseEmit, ingest.MergedFeatureSource.Read",
			"osm.ReadPBFWithOptions (blob reader goroutine, decoder goroutines, done blobs)",
			"MutableOverlayWorld.EachModifiedTag / ModifiedTags.EachModifiedTag",
		},
		Stubs: []string{
			"callback function (harness): returns an injected error at a chosen invocation, optionally yields to the scheduler first",
			"encoding.Buffer (the repository's own in-memory io.WriterAt) holds the map bytes",
		},
		Assumptions: []string{
			"'stops promptly' is judged only under fair scheduling strategies (uniform / sticky task choice), not under the PCT-style and starve-one strategies, which can legitimately keep the failing task from signalling its failure; it is checked as: in runs where at least 64 items beyond the pipeline's capacity (items already handed to other goroutines or buffered in channels) remain when the failing callback returns, strictly fewer than the remaining items are started afterwards (schedule-proof; anything tighter would encode timing)",
		},
		Rule: "one case = (target API, item count, goroutine count, failing position, failure mode, slow items) under one schedule; non-trivial = the scheduler made >=2 decisions with >=2 runnable tasks; distinct = distinct hash of the (task, site) schedule trace",
	})
}

var errInjected = errors.New("injected callback error")

// failPlan decides which callback invocations fail.
type failPlan struct {
	at       int  // invocation index (global, in start order) that fails first
	always   bool // every invocation from 'at' on fails
	slowPct  int  // percentage of invocations that yield before returning
	started  int  // callbacks started so far
	failedAt int  // value of 'started' when the first failure returned; -1 before
	after    int  // callbacks started after the first failure returned
	rc       *RC
}

// call runs inside callbacks on several tasks: plain fields only and
// //go:norace, so the harness's own bookkeeping is invisible to the race
// detector (tasks are serialised by the scheduler).
//
//go:norace
func (p *failPlan) call() error {
	idx := p.started
	p.started++
	if p.failedAt >= 0 {
		p.after++
	}
	if p.slowPct > 0 && int(uint32(idx*2654435761)>>8)%100 < p.slowPct {
		for k := 0; k < 1+idx%3; k++ {
			simrt.Yield("callback.slow")
		}
	}
	if idx == p.at || (p.always && idx > p.at) {
		if p.failedAt < 0 {
			p.failedAt = p.started
		}
		return errInjected
	}
	return nil
}

func runC28(rc *RC) {
	switch rc.Pick(4, 2, 2, 2, 4, 4, 4, 4, 4, 1, 1, 1, 1, 1, 1, 1, 1) {
	case 0:
		c28EachItem(rc)
	case 1:
		c28EachFeature(rc, "basic world")
	case 2:
		c28EachFeature(rc, "mutable overlay world")
	case 3:
		c28EachFeature(rc, "compact world")
	case 4:
		c28MemorySource(rc)
	case 5:
		c28PBF(rc)
	case 6:
		c28ModifiedTags(rc)
	case 7:
		c28Parallelise(rc)
	case 8:
		c28Merged(rc)
	case 9:
		c28EachFeature(rc, "basic mutable world")
	case 10:
		c28EachFeature(rc, "mutable overlay world over compact world")
	case 11:
		c28EachFeature(rc, "mutable tags overlay world")
	case 12:
		c28EachFeature(rc, "overlay world")
	case 13:
		c28EachFeature(rc, "overlay world over compact world")
	case 14:
		c28EachFeature(rc, "read-only world")
	case 15:
		c28EachFeature(rc, "modified features of mutable overlay world")
	case 16:
		c28EachFeature(rc, "world feature source")
	}
}

// c28Plan draws the failure plan shared by all targets.
func c28Plan(rc *RC, n int) (*failPlan, int) {
	goroutines := []int{1, 2, 3, 4, 8}[rc.Draw(5)]
	plan := &failPlan{rc: rc, failedAt: -1}
	plan.at = rc.Draw(n)
	if rc.Pct(50) {
		plan.at = rc.Draw(min(n, 8)) // early failure: a long tail remains
	}
	plan.always = rc.Pct(50)
	if rc.Pct(30) {
		plan.slowPct = rc.Range(5, 50)
	}
	rc.Configured("callback-error")
	rc.Knob("goroutines", goroutines)
	return plan, goroutines
}

// manyPoints returns n extra point features (outside the observation
// universe; only used where long enumerations are needed).
func manyPoints(n int) []*fspec {
	out := make([]*fspec, 0, n)
	for i := 0; i < n; i++ {
		id := pointID(1000 + i)
		if i%3 == 2 {
			// a second namespace: the compact world keeps one block of
			// features per (type, namespace) and enumerates them in turn
			id.Namespace = nsB
		}
		out = append(out, &fspec{ID: id, Lat: int32(515400000 + (i/20)*3000), Lng: int32(-1200000 + (i%20)*3000), Tags: []tagKV{{"name", fmt.Sprintf("p%d", i)}}})
	}
	return out
}

func c28EachFeature(rc *RC, kind string) {
	target := "C28/EachFeature(" + kind + ")"
	rc.Phase(target)
	g := newCityGen(rc)
	compactBase := kind == "compact world" || kind == "mutable overlay world over compact world" || kind == "overlay world over compact world" || (kind == "mutable tags overlay world" && rc.Pct(50))
	g.noBaseCollections = compactBase
	specs := g.baseCity(true)
	if rc.Pct(70) {
		specs = append(specs, manyPoints(rc.Range(60, 160))...)
	}
	var w b6.World
	var err error
	n := len(specs)
	// each enumerates what the target enumerates
	each := func(w b6.World, f func(goroutine int) error, goroutines int) error {
		return w.EachFeature(func(_ b6.Feature, goroutine int) error { return f(goroutine) }, &b6.EachFeatureOptions{Goroutines: goroutines})
	}
	newBase := func() (b6.World, error) {
		if compactBase {
			return newCompactWorld(specs, 1)
		}
		return newBasicWorld(specs)
	}
	// overlayPoints adds replaced base points and new points to a mutable world
	overlayPoints := func(o ingest.MutableWorld, lo, hi int) bool {
		for i, k := 0, rc.Range(lo, hi); i < k; i++ {
			s := g.pointSpec(rc.Draw(maxPoints), 2)
			s.Tags = g.someTags(2)
			if aerr := o.AddFeature(s.build()); aerr != nil {
				rc.Fail("HARNESS/fixture", "%v", aerr)
				return false
			}
		}
		return true
	}
	switch kind {
	case "basic world", "compact world":
		w, err = newBase()
	case "basic mutable world":
		m := ingest.NewBasicMutableWorld()
		for _, f := range buildAll(specs) {
			if err = m.AddFeature(f); err != nil {
				break
			}
		}
		w = m
	case "mutable tags overlay world":
		var bw b6.World
		if bw, err = newBase(); err == nil {
			o := ingest.NewMutableTagsOverlayWorld(bw)
			for i, k := 0, rc.Range(0, 8); i < k; i++ {
				o.AddTag(specs[rc.Draw(len(specs))].ID, b6.Tag{Key: "note", Value: b6.NewStringExpression("x")})
			}
			w = o
		}
	case "overlay world", "overlay world over compact world":
		var bw b6.World
		if bw, err = newBase(); err == nil {
			// the overlay: a basic world holding replaced base points and new ones
			var over []*fspec
			seen := map[b6.FeatureID]bool{}
			for i, k := 0, rc.Range(0, 40); i < k; i++ {
				s := g.pointSpec(rc.Draw(maxPoints), 2)
				if rc.Pct(50) {
					s = manyPoints(200)[100+rc.Draw(100)]
				}
				if !seen[s.ID] {
					seen[s.ID] = true
					over = append(over, s)
				}
			}
			var ow b6.World
			if ow, err = newBasicWorld(over); err == nil {
				w = ingest.NewOverlayWorld(ow, bw)
				n = 0 // counted below
			}
		}
	case "read-only world":
		var bw b6.World
		if bw, err = newBase(); err == nil {
			w = ingest.ReadOnlyWorld{World: bw}
		}
	case "world feature source":
		var bw b6.World
		if bw, err = newBase(); err == nil {
			w = bw
			each = func(w b6.World, f func(goroutine int) error, goroutines int) error {
				return ingest.WorldFeatureSource{World: w}.Read(ingest.ReadOptions{Goroutines: goroutines}, func(_ ingest.Feature, goroutine int) error { return f(goroutine) }, context.Background())
			}
		}
	case "modified features of mutable overlay world":
		var bw b6.World
		if bw, err = newBase(); err == nil {
			o := ingest.NewMutableOverlayWorld(bw)
			for _, s := range manyPoints(rc.Range(1, 200)) {
				s.ID.Value += 5000 // not in the base
				if err = o.AddFeature(s.build()); err != nil {
					break
				}
			}
			if !overlayPoints(o, 0, 12) {
				return
			}
			w = o
			n = 0
			each = func(w b6.World, f func(goroutine int) error, goroutines int) error {
				return w.(*ingest.MutableOverlayWorld).EachModifiedFeature(func(_ b6.Feature, goroutine int) error { return f(goroutine) }, &b6.EachFeatureOptions{Goroutines: goroutines})
			}
		}
	default: // mutable overlay worlds
		var bw b6.World
		if bw, err = newBase(); err == nil {
			o := ingest.NewMutableOverlayWorld(bw)
			if !overlayPoints(o, 0, 12) {
				return
			}
			w = o
		}
	}
	if err != nil {
		rc.Fail("HARNESS/fixture", "%v", err)
		return
	}
	// the number of features the target enumerates when nothing fails
	// (sequentially, before the failure plan exists)
	count := 0
	if err := each(w, func(int) error { count++; return nil }, 1); err != nil {
		rc.Fail(target+"/spurious-error", "enumeration with a callback that never fails returned %v", err)
		return
	}
	if n != 0 && count < n {
		rc.Fail("HARNESS/fixture", "%s enumerates %d features, source had %d", kind, count, n)
		return
	}
	n = count
	if n == 0 {
		rc.SetNontrivial(false)
		return
	}
	plan, goroutines := c28Plan(rc, n)
	rc.Case(kind, n, goroutines, plan.at, plan.always, plan.slowPct)
	rc.Notef("%s with %d features, EachFeature(goroutines=%d), callback fails at invocation %d (always=%v), slow%%=%d", kind, n, goroutines, plan.at, plan.always, plan.slowPct)
	var cerr error
	rc.Sim(target, func() {
		cerr = each(w, func(int) error { return plan.call() }, goroutines)
	})
	checkStreamOutcome(rc, target, plan, n, 4*goroutines+8, true, cerr)
}

func c28MemorySource(rc *RC) {
	const target = "C28/MemoryFeatureSource.Read"
	rc.Phase(target)
	specs := manyPoints(rc.Range(1, 200))
	n := len(specs)
	plan, goroutines := c28Plan(rc, n)
	rc.Case("memsource", n, goroutines, plan.at, plan.always, plan.slowPct)
	rc.Notef("MemoryFeatureSource of %d features, Read(Goroutines=%d), emit fails at invocation %d (always=%v), slow%%=%d", n, goroutines, plan.at, plan.always, plan.slowPct)
	src := ingest.MemoryFeatureSource(buildAll(specs))
	var cerr error
	rc.Sim(target, func() {
		cerr = src.Read(ingest.ReadOptions{Goroutines: goroutines}, func(f ingest.Feature, goroutine int) error { return plan.call() }, context.Background())
	})
	checkStreamOutcome(rc, target, plan, n, 2*goroutines+2, true, cerr)
}

func c28PBF(rc *RC) {
	const target = "C28/osm.ReadPBFWithOptions"
	rc.Phase(target)
	// many small blocks: alternate element types so that the writer starts a new block often
	n := rc.Range(1, 320)
	var disk chunkWriter
	w, err := osm.NewWriter(&disk)
	if err != nil {
		rc.Fail("HARNESS/fixture", "%v", err)
		return
	}
	runLen := rc.Range(1, 4)
	for i := 0; i < n; i++ {
		var e osm.Element
		if (i/runLen)%2 == 0 {
			e = &osm.Node{ID: osm.NodeID(i + 1), Location: osm.LatLng{Lat: 51.5, Lng: -0.1}}
		} else {
			e = &osm.Way{ID: osm.WayID(i + 1), Nodes: []osm.NodeID{1, 2}}
		}
		if err := w.WriteElement(e); err != nil {
			rc.Fail("HARNESS/fixture", "%v", err)
			return
		}
	}
	if err := w.Flush(); err != nil {
		rc.Fail("HARNESS/fixture", "%v", err)
		return
	}
	plan, cores := c28Plan(rc, n)
	rc.Case("pbf", n, runLen, cores, plan.at, plan.always, plan.slowPct)
	rc.Notef("PBF file of %d elements in runs of %d per block, ReadPBFWithOptions(Cores=%d), emit fails at invocation %d (always=%v), slow%%=%d", n, runLen, cores, plan.at, plan.always, plan.slowPct)
	sr := &shortReader{rc: rc, data: disk.buf.Bytes(), mode: rc.Draw(4)}
	var cerr error
	rc.Sim(target, func() {
		cerr = osm.ReadPBFWithOptions(sr, func(e osm.Element, goroutine int) error { return plan.call() }, osm.ReadOptions{Cores: cores})
	})
	// whole blocks are in flight: one per decoder, up to `cores` buffered in
	// the channel, and each decoder may win one more after cancellation
	checkStreamOutcome(rc, target, plan, n, (3*cores+2)*runLen, true, cerr)
}

func c28ModifiedTags(rc *RC) {
	const target = "C28/MutableOverlayWorld.EachModifiedTag"
	rc.Phase(target)
	specs := manyPoints(rc.Range(1, 180))
	bw, err := newBasicWorld(specs)
	if err != nil {
		rc.Fail("HARNESS/fixture", "%v", err)
		return
	}
	o := ingest.NewMutableOverlayWorld(bw)
	n := 0
	for _, s := range specs {
		// plain keys only: these are recorded as modified tags of base features
		if err := o.AddTag(s.ID, b6.Tag{Key: "note", Value: b6.NewStringExpression("x")}); err != nil {
			rc.Fail("HARNESS/fixture", "%v", err)
			return
		}
		n++
		if rc.Pct(20) {
			o.RemoveTag(s.ID, "name")
			n++
		}
		// some features carry many modified tags
		for k := rc.Pick(6, 2, 1, 1); k > 0; k-- {
			if err := o.AddTag(s.ID, b6.Tag{Key: fmt.Sprintf("note%d", k), Value: b6.NewStringExpression("y")}); err == nil {
				n++
			}
		}
	}
	plan, goroutines := c28Plan(rc, n)
	rc.Case("modtags", n, goroutines, plan.at, plan.always, plan.slowPct)
	rc.Notef("overlay world with %d modified tags, EachModifiedTag(goroutines=%d), callback fails at invocation %d (always=%v), slow%%=%d", n, goroutines, plan.at, plan.always, plan.slowPct)
	var cerr error
	rc.Sim(target, func() {
		cerr = o.EachModifiedTag(func(t ingest.ModifiedTag, goroutine int) error { return plan.call() }, &b6.EachFeatureOptions{Goroutines: goroutines})
	})
	checkStreamOutcome(rc, target, plan, n, 2*goroutines+2, true, cerr)
}

func c28Parallelise(rc *RC) {
	const target = "C28/ingest.ParalleliseEmit"
	rc.Phase(target)
	features := buildAll(manyPoints(rc.Range(1, 200)))
	n := len(features)
	plan, goroutines := c28Plan(rc, n)
	if goroutines < 2 {
		goroutines = 2 // with one goroutine ParalleliseEmit hands back the emit function itself
	}
	rc.Case("parallelise", n, goroutines, plan.at, plan.always, plan.slowPct)
	rc.Notef("ParalleliseEmit(goroutines=%d) fed %d features round-robin, emit fails at invocation %d (always=%v), slow%%=%d", goroutines, n, plan.at, plan.always, plan.slowPct)
	var cerr error
	fed := 0
	rc.Sim(target, func() {
		emit, wait := ingest.ParalleliseEmit(func(f ingest.Feature, goroutine int) error { return plan.call() }, goroutines, context.Background())
		for i, f := range features {
			if err := emit(f, i%goroutines); err != nil {
				cerr = err
				break
			}
			fed++
		}
		if err := wait(); err != nil && cerr == nil {
			cerr = err
		}
	})
	checkStreamOutcome(rc, target, plan, n, 2*goroutines+2, true, cerr)
}

func c28Merged(rc *RC) {
	const target = "C28/MergedFeatureSource.Read"
	rc.Phase(target)
	k := rc.Range(1, 4)
	all := manyPoints(rc.Range(k, 200))
	n := len(all)
	var srcs ingest.MergedFeatureSource
	per := (n + k - 1) / k
	for i := 0; i < n; i += per {
		srcs = append(srcs, ingest.MemoryFeatureSource(buildAll(all[i:min(n, i+per)])))
	}
	plan, goroutines := c28Plan(rc, n)
	rc.Case("merged", n, k, goroutines, plan.at, plan.always, plan.slowPct)
	rc.Notef("MergedFeatureSource of %d sources / %d features, Read(Goroutines=%d), emit fails at invocation %d (always=%v), slow%%=%d", len(srcs), n, goroutines, plan.at, plan.always, plan.slowPct)
	var cerr error
	rc.Sim(target, func() {
		cerr = srcs.Read(ingest.ReadOptions{Goroutines: goroutines}, func(f ingest.Feature, goroutine int) error { return plan.call() }, context.Background())
	})
	checkStreamOutcome(rc, target, plan, n, 2*goroutines+2*len(srcs)+2, true, cerr)
}

func c28EachItem(rc *RC) {
	const target = "C28/Uint64Map.EachItem"
	n := rc.Range(1, 160)
	if rc.Pct(60) {
		n = rc.Range(80, 200) // long tail
	}
	goroutines := []int{1, 2, 3, 4, 8}[rc.Draw(5)]
	plan := &failPlan{rc: rc, failedAt: -1}
	plan.at = rc.Draw(n)
	if rc.Pct(50) {
		plan.at = rc.Draw(min(n, 8)) // early failure: long tail remains
	}
	plan.always = rc.Pct(50)
	if rc.Pct(30) {
		plan.slowPct = rc.Range(5, 50)
	}
	rc.Configured("callback-error")
	rc.Knob("goroutines", goroutines)
	rc.Case("EachItem", n, goroutines, plan.at, plan.always, plan.slowPct)
	rc.Notef("Uint64Map with %d ids, EachItem(goroutines=%d), callback fails at invocation %d (always=%v), slow%%=%d", n, goroutines, plan.at, plan.always, plan.slowPct)

	// Build the map (fixture: simulator inactive).
	b := encoding.NewUint64MapBuilder(8, 1)
	for i := 0; i < n; i++ {
		b.Reserve(uint64(1000+i*7), 0, 4)
	}
	var out encoding.Buffer
	b.WriteHeader(&out, 0)
	for i := 0; i < n; i++ {
		if err := b.WriteItem(uint64(1000+i*7), 0, []byte(fmt.Sprintf("%04d", i)), &out); err != nil {
			rc.Fail("HARNESS/fixture", "WriteItem: %v", err)
			return
		}
	}
	m := encoding.NewUint64Map(out.Bytes())

	var err error
	rc.Sim(target, func() {
		err = m.EachItem(func(id uint64, tagged []encoding.Tagged, goroutine int) error {
			return plan.call()
		}, goroutines)
	})
	// (a call that never returns ends the run as a deadlock, class target+"/deadlock")
	checkStreamOutcome(rc, target, plan, n, 4*goroutines+8, true, err)
}

// checkStreamOutcome is the oracle shared by all C28 targets.
// slack is the number of items the pipeline can legitimately still deliver
// after the failing callback returned: items already handed to other
// goroutines or sitting in channel buffers when the failure happened.
func checkStreamOutcome(rc *RC, target string, plan *failPlan, items int, slack int, returned bool, err error) {
	if !returned {
		rc.Fail(target+"/no-return", "the call did not return")
		return
	}
	if plan.failedAt >= 0 {
		rc.Fired("callback-error")
	}
	if plan.failedAt < 0 {
		// the failing position was never reached (fewer callbacks than
		// expected): nothing to check, but say so
		rc.Probe("fail-position-not-reached")
		if err != nil {
			rc.Fail(target+"/spurious-error", "no callback failed but the call returned %v", err)
		}
		return
	}
	if err == nil {
		rc.Fail(target+"/reported-success", "callback %d returned an error but the call returned nil (%d callbacks started, %d after the failure)", plan.at, plan.started, plan.after)
		return
	}
	remaining := items - plan.failedAt
	if remaining >= 64+slack && !simrt.FairSchedule() {
		// a schedule that starves the task whose callback failed (before it
		// has signalled the failure) legitimately lets the others run on
		rc.Probe("long-tail-not-judged-under-unfair-schedule")
	} else if remaining >= 64+slack {
		rc.Probe("long-tail-checked")
		if plan.after >= remaining {
			rc.Fail(target+"/not-prompt", "after callback %d failed, all %d remaining items were still delivered (%d callbacks started after the failure returned): the enumeration ran to the end of its input instead of stopping", plan.at, remaining, plan.after)
		}
	}
}
