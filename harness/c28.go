package harness

import (
	"errors"
	"fmt"

	"diagonal.works/b6/encoding"
	"verif/simrt"
)

// C28: a callback error stops streaming and is reported.

func init() {
	register(&Scenario{
		Prop: "C28",
		Run:  runC28,
		Real: []string{"encoding.Uint64Map.EachItem with its goroutine pool, channels and select"},
		Stubs: []string{
			"callback function (harness): returns an injected error at a chosen invocation, optionally yields to the scheduler first",
			"encoding.Buffer (the repository's own in-memory io.WriterAt) holds the map bytes",
		},
		Assumptions: []string{
			"'stops promptly' is checked as: in runs where at least 64 items remain when the failing callback returns, strictly fewer than the remaining items are started afterwards (schedule-proof; anything tighter would encode timing)",
		},
		Rule: "one case = (target API, item count, goroutine count, failing position, failure mode, slow items) under one schedule; non-trivial = the scheduler made >=2 decisions with >=2 runnable tasks; distinct = distinct hash of the (task, site) schedule trace",
	})
}

var errInjected = errors.New("injected callback error")

// failPlan decides which callback invocations fail.
type failPlan struct {
	at       int  // invocation index (global, in start order) that fails first
	always   bool // every invocation from 'at' on fails
	slowPct  int  // percentage of invocations that yield before returning
	started  int  // callbacks started so far
	failedAt int  // value of 'started' when the first failure returned; -1 before
	after    int  // callbacks started after the first failure returned
	rc       *RC
}

// call runs inside callbacks on several tasks: plain fields only and
// //go:norace, so the harness's own bookkeeping is invisible to the race
// detector (tasks are serialised by the scheduler).
//
//go:norace
func (p *failPlan) call() error {
	idx := p.started
	p.started++
	if p.failedAt >= 0 {
		p.after++
	}
	if p.slowPct > 0 && int(uint32(idx*2654435761)>>8)%100 < p.slowPct {
		for k := 0; k < 1+idx%3; k++ {
			simrt.Yield("callback.slow")
		}
	}
	if idx == p.at || (p.always && idx > p.at) {
		if p.failedAt < 0 {
			p.failedAt = p.started
		}
		return errInjected
	}
	return nil
}

func runC28(rc *RC) {
	switch rc.Pick(1) {
	case 0:
		c28EachItem(rc)
	}
}

func c28EachItem(rc *RC) {
	const target = "C28/Uint64Map.EachItem"
	n := rc.Range(1, 160)
	if rc.Pct(60) {
		n = rc.Range(80, 200) // long tail
	}
	goroutines := []int{1, 2, 3, 4, 8}[rc.Draw(5)]
	plan := &failPlan{rc: rc, failedAt: -1}
	plan.at = rc.Draw(n)
	if rc.Pct(50) {
		plan.at = rc.Draw(min(n, 8)) // early failure: long tail remains
	}
	plan.always = rc.Pct(50)
	if rc.Pct(30) {
		plan.slowPct = rc.Range(5, 50)
	}
	rc.Configured("callback-error")
	rc.Knob("goroutines", goroutines)
	rc.Case("EachItem", n, goroutines, plan.at, plan.always, plan.slowPct)
	rc.Notef("Uint64Map with %d ids, EachItem(goroutines=%d), callback fails at invocation %d (always=%v), slow%%=%d", n, goroutines, plan.at, plan.always, plan.slowPct)

	// Build the map (fixture: simulator inactive).
	b := encoding.NewUint64MapBuilder(8, 1)
	for i := 0; i < n; i++ {
		b.Reserve(uint64(1000+i*7), 0, 4)
	}
	var out encoding.Buffer
	b.WriteHeader(&out, 0)
	for i := 0; i < n; i++ {
		if err := b.WriteItem(uint64(1000+i*7), 0, []byte(fmt.Sprintf("%04d", i)), &out); err != nil {
			rc.Fail("HARNESS/fixture", "WriteItem: %v", err)
			return
		}
	}
	m := encoding.NewUint64Map(out.Bytes())

	var err error
	rc.Sim(target, func() {
		err = m.EachItem(func(id uint64, tagged []encoding.Tagged, goroutine int) error {
			return plan.call()
		}, goroutines)
	})
	// (a call that never returns ends the run as a deadlock, class target+"/deadlock")
	checkStreamOutcome(rc, target, plan, n, true, err)
}

// checkStreamOutcome is the oracle shared by all C28 targets.
func checkStreamOutcome(rc *RC, target string, plan *failPlan, items int, returned bool, err error) {
	if !returned {
		rc.Fail(target+"/no-return", "the call did not return")
		return
	}
	if plan.failedAt >= 0 {
		rc.Fired("callback-error")
	}
	if plan.failedAt < 0 {
		// the failing position was never reached (fewer callbacks than
		// expected): nothing to check, but say so
		rc.Probe("fail-position-not-reached")
		if err != nil {
			rc.Fail(target+"/spurious-error", "no callback failed but the call returned %v", err)
		}
		return
	}
	if err == nil {
		rc.Fail(target+"/reported-success", "callback %d returned an error but the call returned nil (%d callbacks started, %d after the failure)", plan.at, plan.started, plan.after)
		return
	}
	remaining := items - plan.failedAt
	if remaining >= 64 {
		rc.Probe("long-tail-checked")
		if plan.after >= remaining {
			rc.Fail(target+"/not-prompt", "after callback %d failed, all %d remaining items were still delivered (%d callbacks started after the failure returned): the enumeration ran to the end of its input instead of stopping", plan.at, remaining, plan.after)
		}
	}
}
