package harness

import (
	"fmt"
	"strings"

	"diagonal.works/b6"
	"diagonal.works/b6/ingest"
	"github.com/golang/geo/s2"
)

// C38: callers' feature values are isolated from the world, and clones are
// independent of their originals.

func init() {
	register(&Scenario{
		Prop: "C38",
		Run:  runC38,
		Real: []string{
			"ingest.BasicMutableWorld and ingest.MutableOverlayWorld AddFeature (clone on insert, MergeFrom on replacement)",
			"Clone / CloneAreaFeature / CloneRelationFeature of GenericFeature, AreaFeature, RelationFeature, CollectionFeature and every mutator of the ingest.Feature API",
		},
		Stubs: []string{"none: the 'caller' is harness code holding the values it passed in and clones of them"},
		Assumptions: []string{
			"late caller-side mutations are placed at tape-chosen points of an edit history; the world's full observation must be identical before and after each of them (real versus real)",
			"independence of clones is checked on a structural dump of the ingest.Feature value (tags, path members, area path ids and polygons, relation members, collection keys and values)",
		},
		Rule:             "one case = (world kind, history of additions, set of late caller-side mutations of kept values and clones); non-trivial = at least two caller-side mutations of distinct kinds were applied; distinct = distinct hash of the history",
		NontrivialByCase: true,
		Level:            "fault_enumeration",
	})
}

// dumpIngest renders an ingest.Feature value structurally.
func dumpIngest(f ingest.Feature) string {
	var b strings.Builder
	fmt.Fprintf(&b, "%s tags{", f.FeatureID())
	for _, t := range f.AllTags() {
		fmt.Fprintf(&b, "%q=%q;", t.Key, t.Value.String())
	}
	b.WriteString("} ")
	switch f := f.(type) {
	case *ingest.AreaFeature:
		for i := 0; i < f.Len(); i++ {
			if ids, ok := f.PathIDs(i); ok {
				fmt.Fprintf(&b, "poly%d=paths%v ", i, ids)
			}
			if p, ok := f.Polygon(i); ok {
				fmt.Fprintf(&b, "poly%d=loops(", i)
				for l := 0; l < p.NumLoops(); l++ {
					for _, v := range p.Loop(l).Vertices() {
						b.WriteString(pointE7(v) + " ")
					}
				}
				b.WriteString(") ")
			}
		}
	case *ingest.RelationFeature:
		for _, m := range f.Members {
			fmt.Fprintf(&b, "%s:%q ", m.ID, m.Role)
		}
	case *ingest.CollectionFeature:
		for i := range f.Keys {
			fmt.Fprintf(&b, "%v=%v ", f.Keys[i], f.Values[i])
		}
	}
	return b.String()
}

var mutCounter int

type keptValue struct {
	f       ingest.Feature
	label   string
	inWorld bool // was passed to AddFeature (as opposed to a clone taken by the caller)
}

// callerMutation applies one mutation through the ingest.Feature API and
// returns its description ("" if not applicable to this value).
func callerMutation(rc *RC, f ingest.Feature) string {
	kinds := []string{"addtag", "modifytag", "removetag", "removealltags", "settags"}
	switch f.(type) {
	case *ingest.GenericFeature:
		if f.FeatureID().Type == b6.FeatureTypePath {
			kinds = append(kinds, "pathpoint", "pathpoint", "pathpoint")
		} else {
			kinds = append(kinds, "movepoint", "movepoint")
		}
	case *ingest.AreaFeature:
		kinds = append(kinds, "setpathid", "setpathid", "setpolygon", "setpathids")
	case *ingest.RelationFeature:
		kinds = append(kinds, "memberid", "memberrole", "memberid")
	case *ingest.CollectionFeature:
		kinds = append(kinds, "colkey", "colvalue", "colkey")
	}
	k := kinds[rc.Draw(len(kinds))]
	mut := b6.NewStringExpression("MUTATED-BY-CALLER")
	switch k {
	case "addtag":
		// a key no feature has yet: AddTag appends without looking, and
		// duplicate keys are a different property's business (C39)
		mutCounter++
		f.AddTag(b6.Tag{Key: fmt.Sprintf("#mut%d", mutCounter), Value: mut})
	case "modifytag":
		tags := f.AllTags()
		for _, t := range tags {
			if t.Key != b6.PathTag && t.Key != b6.PointTag {
				f.ModifyOrAddTag(b6.Tag{Key: t.Key, Value: mut})
				return "ModifyOrAddTag(" + t.Key + ")"
			}
		}
		f.ModifyOrAddTag(b6.Tag{Key: "name", Value: mut})
	case "removetag":
		tags := f.AllTags()
		for _, t := range tags {
			if t.Key != b6.PathTag && t.Key != b6.PointTag {
				f.RemoveTag(t.Key)
				return "RemoveTag(" + t.Key + ")"
			}
		}
		return ""
	case "removealltags":
		if f.FeatureID().Type == b6.FeatureTypePath || f.FeatureID().Type == b6.FeatureTypePoint {
			return "" // would remove the geometry tag as well; keep geometry mutations separate
		}
		f.RemoveAllTags()
	case "settags":
		if f.FeatureID().Type == b6.FeatureTypePath || f.FeatureID().Type == b6.FeatureTypePoint {
			return ""
		}
		f.SetTags([]b6.Tag{{Key: "#building", Value: mut}})
	case "pathpoint":
		n := 0
		if p, ok := f.(b6.PhysicalFeature); ok {
			n = p.GeometryLen()
		}
		if n == 0 {
			return ""
		}
		i := rc.Draw(n + 1) // i == n extends the path by one point
		f.ModifyOrAddTagAt(b6.Tag{Key: b6.PathTag, Value: b6.NewFeatureIDExpression(pointID(rc.Draw(maxPoints)))}, i)
		if i == n {
			return fmt.Sprintf("ModifyOrAddTagAt(path, %d) (extends the path)", i)
		}
		return fmt.Sprintf("ModifyOrAddTagAt(path, %d)", i)
	case "movepoint":
		f.ModifyOrAddTag(b6.Tag{Key: b6.PointTag, Value: b6.NewPointExpressionFromLatLng(s2.LatLngFromDegrees(51.5401, -0.1201))})
	case "setpathid":
		a := f.(*ingest.AreaFeature)
		if a.Len() == 0 {
			return ""
		}
		i := rc.Draw(a.Len())
		if _, ok := a.PathIDs(i); !ok {
			return ""
		}
		a.SetPathID(i, 0, pathID(maxPaths-1))
		return fmt.Sprintf("SetPathID(%d, 0)", i)
	case "setpathids":
		a := f.(*ingest.AreaFeature)
		if a.Len() == 0 {
			return ""
		}
		a.SetPathIDs(rc.Draw(a.Len()), []b6.FeatureID{pathID(maxPaths - 1)})
	case "setpolygon":
		a := f.(*ingest.AreaFeature)
		if a.Len() == 0 {
			return ""
		}
		pts := []s2.Point{}
		for _, g := range rect(0, 0, 1, 1) {
			lat, lng := gridE7(g, 0)
			pts = append(pts, s2.PointFromLatLng(llFromE7(lat+77, lng+77)))
		}
		a.SetPolygon(rc.Draw(a.Len()), s2.PolygonFromLoops([]*s2.Loop{s2.LoopFromPoints(pts)}))
	case "memberid":
		r := f.(*ingest.RelationFeature)
		if len(r.Members) == 0 {
			return ""
		}
		r.Members[rc.Draw(len(r.Members))].ID = pointID(maxPoints + 1)
	case "memberrole":
		r := f.(*ingest.RelationFeature)
		if len(r.Members) == 0 {
			return ""
		}
		r.Members[rc.Draw(len(r.Members))].Role = "MUTATED-BY-CALLER"
	case "colkey":
		c := f.(*ingest.CollectionFeature)
		if len(c.Keys) == 0 {
			return ""
		}
		c.Keys[rc.Draw(len(c.Keys))] = pointID(maxPoints + 1)
	case "colvalue":
		c := f.(*ingest.CollectionFeature)
		if len(c.Values) == 0 {
			return ""
		}
		c.Values[rc.Draw(len(c.Values))] = "MUTATED-BY-CALLER"
	}
	return k
}

func runC38(rc *RC) {
	mutCounter = 0
	g := newCityGen(rc)
	kind := rc.Pick(4, 4, 0, 1, 1, 1) // BasicMutableWorld or MutableOverlayWorld over various bases
	rc.Knob("world-kind", kind)
	g.noBaseCollections = kind == wkOverlayOverCompact
	base := g.baseCity(true)
	w, err := makeMutableWorld(rc, g, kind, base)
	g.mixedAreas = true // only for features added from here on
	if err != nil {
		rc.Fail("HARNESS/fixture", "%v", err)
		return
	}
	name := "C38/" + worldKindNames[kind]
	rc.Phase(name)
	ids := universe()
	full := obsOpts{}
	var kept []*keptValue
	steps := rc.Range(3, 20)
	mix := opMix{noInvalid: true, richTypes: true, geometryPct: 80}
	kindsApplied := map[string]bool{}
	mutations := 0
	for i := 0; i < steps && !rc.Failed(); i++ {
		if len(kept) > 0 && rc.Pct(45) {
			// late caller-side mutation
			kv := kept[rc.Draw(len(kept))]
			if rc.Pct(30) {
				// clone independence, both directions
				var c ingest.Feature
				if !rc.Guard(name+"/panic", func() { c = kv.f.Clone() }) {
					return
				}
				target, other, tl, ol := kv.f, c, "original", "clone"
				if rc.Pct(50) {
					target, other, tl, ol = c, kv.f, "clone", "original"
				}
				before := dumpIngest(other)
				wbefore := Observe(w, ids, full)
				var what string
				if !rc.Guard(name+"/panic", func() { what = callerMutation(rc, target) }) {
					return
				}
				if what == "" {
					continue
				}
				rc.Case("clone-mut", kv.label, tl, what)
				rc.Notef("#%d caller clones %s, then mutates the %s: %s", i, kv.label, tl, what)
				rc.Fired("late-caller-mutation")
				mutations++
				kindsApplied[what] = true
				if after := dumpIngest(other); after != before {
					rc.Fail(name+"/clone-not-independent:"+fmt.Sprintf("%T", kv.f), "mutating the %s of %s with %s changed the %s:\n  before: %s\n  after : %s", tl, kv.label, what, ol, before, after)
					return
				}
				wafter := Observe(w, ids, full)
				if d := wbefore.Diff(wafter, 1); len(d) > 0 {
					rc.Fail(name+"/world-changed-by-caller:"+section(d[0]), "mutating the %s of %s (%s) changed what the world returns:\n%s", tl, kv.label, what, wbefore.DiffString(wafter, "before", "after "))
					return
				}
				kept = append(kept, &keptValue{f: c, label: "clone of " + kv.label})
				continue
			}
			wbefore := Observe(w, ids, full)
			var what string
			if !rc.Guard(name+"/panic", func() { what = callerMutation(rc, kv.f) }) {
				return
			}
			if what == "" {
				continue
			}
			rc.Case("late-mut", kv.label, what)
			rc.Notef("#%d caller mutates %s: %s", i, kv.label, what)
			rc.Fired("late-caller-mutation")
			mutations++
			kindsApplied[what] = true
			wafter := Observe(w, ids, full)
			if d := wbefore.Diff(wafter, 1); len(d) > 0 {
				rc.Fail(name+"/world-changed-by-caller:"+section(d[0]), "the caller mutated %s (%s) after handing it to the world, and the world now answers differently:\n%s", kv.label, what, wbefore.DiffString(wafter, "before", "after "))
				return
			}
			continue
		}
		if len(kept) > 0 && rc.Pct(12) {
			// Burst on one path value: two holders (the value and a clone of
			// it) grow the same point list in turn, the value going back to
			// the world in between. List-valued tags are the one place where
			// holders share a backing array, so growth is where isolation
			// could break.
			var paths []*keptValue
			for _, kv := range kept {
				if kv.inWorld && kv.f.FeatureID().Type == b6.FeatureTypePath {
					paths = append(paths, kv)
				}
			}
			if len(paths) > 0 {
				kv := paths[rc.Draw(len(paths))]
				extend := func(f ingest.Feature, pt int) {
					n := 0
					if p, ok := f.(b6.PhysicalFeature); ok {
						n = p.GeometryLen()
					}
					f.ModifyOrAddTagAt(b6.Tag{Key: b6.PathTag, Value: b6.NewFeatureIDExpression(pointID(pt))}, n)
				}
				ok := true
				rounds := rc.Range(1, 3)
				rc.Case("burst", kv.label, rounds)
				for r := 0; r < rounds && ok; r++ {
					rc.Guard(name+"/panic", func() {
						extend(kv.f, rc.Draw(maxPoints))
						if err := w.AddFeature(kv.f); err != nil {
							ok = false
							return
						}
						clone := kv.f.Clone()
						extend(kv.f, rc.Draw(maxPoints))
						if err := w.AddFeature(kv.f); err != nil {
							ok = false
							return
						}
						before := Observe(w, ids, full)
						extend(clone, maxPoints+1) // a point that exists nowhere: visible if it leaks
						after := Observe(w, ids, full)
						rc.Fired("late-caller-mutation")
						mutations++
						kindsApplied["burst"] = true
						if d := before.Diff(after, 1); len(d) > 0 {
							rc.Fail(name+"/world-changed-by-caller:"+section(d[0]), "the caller grew a clone of %s (which it had grown and handed to the world again meanwhile) and the world now answers differently:\n%s", kv.label, before.DiffString(after, "before", "after "))
						}
					})
					if rc.Failed() {
						return
					}
				}
				rc.Notef("#%d burst: %s grown and re-added, its clone grown, %d round(s), completed=%v", i, kv.label, rounds, ok)
				continue
			}
		}
		if len(kept) > 0 && rc.Pct(20) {
			// the caller hands one of its (possibly edited) values to the world
			// again: an ordinary workflow; the world may refuse it
			kv := kept[rc.Draw(len(kept))]
			var err error
			if !rc.Guard(name+"/panic", func() { err = w.AddFeature(kv.f) }) {
				return
			}
			rc.Case("re-add", kv.label)
			rc.Notef("#%d caller passes %s to AddFeature again -> %v", i, kv.label, err)
			continue
		}
		o := g.genValidAdd(mix)
		rc.Case(o.String())
		val := o.Spec.build()
		var err error
		if !rc.Guard(name+"/panic", func() { err = w.AddFeature(val) }) {
			return
		}
		rc.Notef("#%d %s -> %v (caller keeps the value)", i, o, err)
		if err == nil {
			g.commit(o)
			kept = append(kept, &keptValue{f: val, label: fmt.Sprintf("the value passed to AddFeature at step %d (%s)", i, o.Spec.ID), inWorld: true})
		}
	}
	rc.SetNontrivial(mutations >= 2 && len(kindsApplied) >= 2)
}
