package harness

import (
	"bytes"
	"errors"
	"io"
	"strings"

	"diagonal.works/b6"
	"diagonal.works/b6/ingest"
)

// C18: exported change files reproduce the edited world.

func init() {
	register(&Scenario{
		Prop: "C18",
		Run:  runC18,
		Real: []string{
			"ingest.ExportChangesAsYAML (EachModifiedTag / EachModifiedFeature, yaml.v2 encoder) and ingest.IngestChangesFromYAML(...).Apply (decoder, value-kind inference of b6.ExpressionFromString)",
			"ingest.MutableOverlayWorld over a basic or compact base",
		},
		Stubs: []string{
			"simulated disk (harness): an in-memory file; writes are recorded as issued, reads are served in tape-chosen fragments (1 byte .. whole request); in the I/O-error configuration (30% of runs) it also fills up after a tape-chosen number of bytes (export must report an error) and has a bad sector at a tape-chosen offset (import must report an error)",
		},
		Assumptions: []string{
			"'restart' = the live world is dropped and a fresh MutableOverlayWorld over the same base applies the exported file; placed at tape-chosen points of the history, after which the same further operations are applied to both worlds",
			"tag values are compared as strings",
		},
		Rule:             "one case = (base kind, history incl. areas/relations/collections and tag values that look like numbers, points or ids, 1-3 export/restart points, read fragmentation); non-trivial = the exported file describes >=2 modified features or tag sets; distinct = distinct hash of the history",
		NontrivialByCase: true,
		Level:            "fault_enumeration",
	})
}

// shortReader serves reads in fragments chosen by the tape.
type shortReader struct {
	rc   *RC
	data []byte
	off  int
	mode int
	n    int
	// failAt >= 0: an I/O error (not EOF) is returned once this many bytes
	// have been served; failed is set when that happened
	failAt   int
	hasFail  bool
	failed   bool
	failures int
}

var errInjectedRead = errors.New("injected read error (simulated disk)")
var errInjectedWrite = errors.New("injected write error: no space left on simulated disk")

//go:norace
func (r *shortReader) Read(p []byte) (int, error) {
	if r.hasFail && r.off >= r.failAt {
		r.failed = true
		r.failures++
		return 0, errInjectedRead
	}
	if r.off >= len(r.data) {
		return 0, io.EOF
	}
	max := len(p)
	if rem := len(r.data) - r.off; rem < max {
		max = rem
	}
	if r.hasFail && r.off+max > r.failAt {
		max = r.failAt - r.off // serve the bytes before the bad sector first
		if max == 0 {
			r.failed = true
			r.failures++
			return 0, errInjectedRead
		}
	}
	n := max
	switch r.mode {
	case 1:
		n = 1
	case 2:
		n = 1 + r.rc.Draw(min(max, 7))
	case 3:
		if r.rc.Pct(50) {
			n = 1 + r.rc.Draw(max)
		}
	}
	if n < max {
		r.n++
	}
	copy(p, r.data[r.off:r.off+n])
	r.off += n
	return n, nil
}

// chunkWriter records writes as issued.
type chunkWriter struct {
	buf    bytes.Buffer
	writes int
	// hasFail: the disk is full after failAt bytes; the write that crosses
	// the limit stores what fits and returns an error, as do all later ones
	failAt  int
	hasFail bool
	failed  bool
}

func (w *chunkWriter) Write(p []byte) (int, error) {
	w.writes++
	if w.hasFail {
		room := w.failAt - w.buf.Len()
		if room < len(p) {
			w.failed = true
			if room > 0 {
				w.buf.Write(p[:room])
				return room, errInjectedWrite
			}
			return 0, errInjectedWrite
		}
	}
	return w.buf.Write(p)
}

func runC18(rc *RC) {
	g := newCityGen(rc)
	g.trickyValues = true
	g.mixedCollectionKeys = true
	// Basic bases only: the compact world answers FindReferences by a
	// different, one-level rule (it does not report the areas over a path),
	// so an overlay over it cannot find the features it must copy up when a
	// path is replaced, and what it answers then depends on which features
	// happen to have been copied earlier. That is a difference between the
	// compact and the in-memory world (C02, not claimed), not of the export.
	bk := bkBasic
	rc.Knob("base-kind", bk)
	g.noBaseCollections = bk == bkCompact
	base := g.baseCity(true)
	bw, err := newBaseWorld(bk, base)
	if err != nil {
		rc.Fail("HARNESS/fixture", "%v", err)
		return
	}
	name := "C18/overlay over " + baseKindNames[bk]
	rc.Phase(name)
	ids := universe()
	full := obsOpts{}
	w := ingest.NewMutableOverlayWorld(bw)
	var twin *ingest.MutableOverlayWorld // the restarted world, once there is one
	steps := rc.Range(2, 26)
	restartAt := map[int]bool{steps - 1: true}
	for k := rc.Draw(3); k > 0; k-- {
		restartAt[rc.Draw(steps)] = true
	}
	mix := opMix{noInvalid: true, richTypes: true, geometryPct: 55}
	readMode := rc.Draw(4)
	rc.Knob("read-mode", readMode)
	// I/O error configuration (kept apart from the fault-free one): at each
	// export point the export is also run against a disk that fills up, and
	// the import against a disk with a bad sector; neither may report success
	ioFaults := rc.Pct(30)
	rc.Knob("io-faults", map[bool]int{false: 0, true: 1}[ioFaults])
	nontrivial := false
	for i := 0; i < steps && !rc.Failed(); i++ {
		o := g.genOp(mix)
		rc.Case(o.String())
		var err error
		if !rc.Guard(name+"/panic", func() { err = o.apply(w) }) {
			return
		}
		rc.Notef("#%d %s -> %v", i, o, err)
		if err == nil && (o.Kind == "add" || g.specs[o.ID] != nil) {
			g.commit(o)
		}
		if twin != nil {
			var terr error
			if !rc.Guard(name+"/panic", func() { terr = o.apply(twin) }) {
				return
			}
			if (terr == nil) != (err == nil) {
				rc.Fail(name+"/restarted-world-behaves-differently", "%s returned %v on the edited world and %v on the world restarted from the exported file", o, err, terr)
				return
			}
		}
		if !restartAt[i] {
			continue
		}
		// export
		var out chunkWriter
		var xerr error
		if !rc.Guard(name+"/panic", func() { xerr = ingest.ExportChangesAsYAML(w, &out) }) {
			return
		}
		if xerr != nil {
			rc.Fail(name+"/export-failed", "ExportChangesAsYAML failed after step %d: %v", i, xerr)
			return
		}
		data := out.buf.Bytes()
		rc.Configured("restart")
		rc.Configured("short-read")
		rc.Notef("#%d export: %d bytes in %d writes; restart; import with read mode %d", i, len(data), out.writes, readMode)
		if bytes.Count(data, []byte("\nid:"))+1 >= 2 || bytes.Count(data, []byte("---")) >= 1 {
			nontrivial = true
		}
		if ioFaults && len(data) > 0 {
			full := chunkWriter{hasFail: true, failAt: rc.Draw(len(data))}
			rc.Configured("disk-full")
			var ferr error
			if !rc.Guard(name+"/panic", func() { ferr = ingest.ExportChangesAsYAML(w, &full) }) {
				return
			}
			if full.failed {
				rc.Fired("disk-full")
				if ferr == nil {
					rc.Fail(name+"/export-reported-success-on-full-disk", "the disk was full after %d of %d bytes (writes beyond that returned an error) but ExportChangesAsYAML returned nil: the caller believes the %d-byte file is complete", full.failAt, len(data), full.buf.Len())
					return
				}
			}
			bad := &shortReader{rc: rc, data: data, mode: readMode, hasFail: true, failAt: rc.Draw(len(data))}
			rc.Configured("read-error")
			scratch := ingest.NewMutableOverlayWorld(bw)
			var berr error
			if !rc.Guard(name+"/panic", func() { _, berr = ingest.IngestChangesFromYAML(bad).Apply(scratch) }) {
				return
			}
			if bad.failed {
				rc.Fired("read-error")
				if berr == nil {
					rc.Fail(name+"/import-reported-success-after-read-error", "reading the %d-byte file failed with an I/O error at byte %d but IngestChangesFromYAML(...).Apply returned nil: the caller believes the whole file was applied", len(data), bad.failAt)
					return
				}
			}
		}
		// restart: drop the live world's twin, rebuild from base + file
		fresh := ingest.NewMutableOverlayWorld(bw)
		sr := &shortReader{rc: rc, data: data, mode: readMode}
		var aerr error
		if !rc.Guard(name+"/panic", func() { _, aerr = ingest.IngestChangesFromYAML(sr).Apply(fresh) }) {
			rc.Notef("exported file:\n%s", clipS(string(data), 3000))
			return
		}
		rc.Fired("restart")
		if sr.n > 0 {
			rc.Fired("short-read")
		}
		if aerr != nil {
			rc.Fail(name+"/import-failed:"+c18ImportErrorKind(aerr.Error()), "applying the exported file to a fresh world over the same base failed: %v\nfile:\n%s", aerr, clipS(string(data), 2500))
			return
		}
		// Tokens() is excluded: it reports what the search index knows,
		// including tokens whose posting lists have become empty, which is
		// a property of the index's history, not an answer about features.
		a, b := Observe(w, ids, full).Without("tokens"), Observe(fresh, ids, full).Without("tokens")
		// The two known cross-world differences (DESIGN.md 16.4: Traverse
		// over overlay-resident paths, "(all)" searches and untagged points)
		// are looked at last and do not end the run: anything else that
		// differs, now or later in the history, takes precedence.
		known := func(k string) bool {
			return section(k) == "trav" || strings.HasPrefix(k, "find/(all)") || strings.HasPrefix(k, "find/(feature-type point (all))")
		}
		var rest, soft []string
		for _, k := range a.Diff(b, 1<<20) {
			if known(k) {
				soft = append(soft, k)
			} else {
				rest = append(rest, k)
			}
		}
		if len(rest) > 0 {
			rc.Fail(name+"/restarted-world-differs:"+c18DiffClass(rest[0]), "after export at step %d and import into a fresh world, the worlds differ:\n%s\nfile:\n%s", i, a.DiffString(b, "edited   ", "restarted"), clipS(string(data), 2500))
			return
		}
		if len(soft) > 0 {
			rc.FailSoft(name+"/restarted-world-differs:"+c18DiffClass(soft[0]), "after export at step %d and import into a fresh world, the worlds differ:\n%s\nfile:\n%s", i, a.DiffString(b, "edited   ", "restarted"), clipS(string(data), 2500))
		}
		twin = fresh
	}
	rc.SetNontrivial(nontrivial)
	_ = b6.FeatureIDInvalid
}

// c18DiffClass names the class of a difference by its first (most specific)
// differing key: the section, and for search the query.
func c18DiffClass(key string) string {
	if section(key) == "find" {
		return key
	}
	return section(key)
}

// c18ImportErrorKind classifies why an exported file could not be applied,
// so that different causes are different violation classes.
func c18ImportErrorKind(msg string) string {
	switch {
	case strings.Contains(msg, "not closed"):
		return "ring-not-closed"
	case strings.Contains(msg, "expected 3 or more"):
		return "ring-too-short"
	case strings.Contains(msg, "non-existant path"):
		return "area-over-missing-path"
	case strings.Contains(msg, "missing point"):
		return "path-over-missing-point"
	case strings.Contains(msg, "expected 2 or more"):
		return "path-too-short"
	case strings.Contains(msg, "clockwise"), strings.Contains(msg, "invalid loop"):
		return "invalid-ring"
	}
	return "other"
}
