package harness

import (
	"bytes"
	"io"
	"strings"

	"diagonal.works/b6"
	"diagonal.works/b6/ingest"
)

// C18: exported change files reproduce the edited world.

func init() {
	register(&Scenario{
		Prop: "C18",
		Run:  runC18,
		Real: []string{
			"ingest.ExportChangesAsYAML (EachModifiedTag / EachModifiedFeature, yaml.v2 encoder) and ingest.IngestChangesFromYAML(...).Apply (decoder, value-kind inference of b6.ExpressionFromString)",
			"ingest.MutableOverlayWorld over a basic or compact base",
		},
		Stubs: []string{
			"simulated disk (harness): an in-memory file; writes are recorded as issued, reads are served in tape-chosen fragments (1 byte .. whole request)",
		},
		Assumptions: []string{
			"'restart' = the live world is dropped and a fresh MutableOverlayWorld over the same base applies the exported file; placed at tape-chosen points of the history, after which the same further operations are applied to both worlds",
			"tag values are compared as strings",
		},
		Rule:             "one case = (base kind, history incl. areas/relations/collections and tag values that look like numbers, points or ids, 1-3 export/restart points, read fragmentation); non-trivial = the exported file describes >=2 modified features or tag sets; distinct = distinct hash of the history",
		NontrivialByCase: true,
		Level:            "fault_enumeration",
	})
}

// shortReader serves reads in fragments chosen by the tape.
type shortReader struct {
	rc   *RC
	data []byte
	off  int
	mode int
	n    int
}

func (r *shortReader) Read(p []byte) (int, error) {
	if r.off >= len(r.data) {
		return 0, io.EOF
	}
	max := len(p)
	if rem := len(r.data) - r.off; rem < max {
		max = rem
	}
	n := max
	switch r.mode {
	case 1:
		n = 1
	case 2:
		n = 1 + r.rc.Draw(min(max, 7))
	case 3:
		if r.rc.Pct(50) {
			n = 1 + r.rc.Draw(max)
		}
	}
	if n < max {
		r.n++
	}
	copy(p, r.data[r.off:r.off+n])
	r.off += n
	return n, nil
}

// chunkWriter records writes as issued.
type chunkWriter struct {
	buf    bytes.Buffer
	writes int
}

func (w *chunkWriter) Write(p []byte) (int, error) {
	w.writes++
	return w.buf.Write(p)
}

func runC18(rc *RC) {
	g := newCityGen(rc)
	g.trickyValues = true
	// Basic bases only: the compact world answers FindReferences by a
	// different, one-level rule (it does not report the areas over a path),
	// so an overlay over it cannot find the features it must copy up when a
	// path is replaced, and what it answers then depends on which features
	// happen to have been copied earlier. That is a difference between the
	// compact and the in-memory world (C02, not claimed), not of the export.
	bk := bkBasic
	rc.Knob("base-kind", bk)
	g.noBaseCollections = bk == bkCompact
	base := g.baseCity(true)
	bw, err := newBaseWorld(bk, base)
	if err != nil {
		rc.Fail("HARNESS/fixture", "%v", err)
		return
	}
	name := "C18/overlay over " + baseKindNames[bk]
	rc.Phase(name)
	ids := universe()
	full := obsOpts{}
	w := ingest.NewMutableOverlayWorld(bw)
	var twin *ingest.MutableOverlayWorld // the restarted world, once there is one
	steps := rc.Range(2, 26)
	restartAt := map[int]bool{steps - 1: true}
	for k := rc.Draw(3); k > 0; k-- {
		restartAt[rc.Draw(steps)] = true
	}
	mix := opMix{noInvalid: true, richTypes: true, geometryPct: 55}
	readMode := rc.Draw(4)
	rc.Knob("read-mode", readMode)
	nontrivial := false
	for i := 0; i < steps && !rc.Failed(); i++ {
		o := g.genOp(mix)
		rc.Case(o.String())
		var err error
		if !rc.Guard(name+"/panic", func() { err = o.apply(w) }) {
			return
		}
		rc.Notef("#%d %s -> %v", i, o, err)
		if err == nil && (o.Kind == "add" || g.specs[o.ID] != nil) {
			g.commit(o)
		}
		if twin != nil {
			var terr error
			if !rc.Guard(name+"/panic", func() { terr = o.apply(twin) }) {
				return
			}
			if (terr == nil) != (err == nil) {
				rc.Fail(name+"/restarted-world-behaves-differently", "%s returned %v on the edited world and %v on the world restarted from the exported file", o, err, terr)
				return
			}
		}
		if !restartAt[i] {
			continue
		}
		// export
		var out chunkWriter
		var xerr error
		if !rc.Guard(name+"/panic", func() { xerr = ingest.ExportChangesAsYAML(w, &out) }) {
			return
		}
		if xerr != nil {
			rc.Fail(name+"/export-failed", "ExportChangesAsYAML failed after step %d: %v", i, xerr)
			return
		}
		data := out.buf.Bytes()
		rc.Configured("restart")
		rc.Configured("short-read")
		rc.Notef("#%d export: %d bytes in %d writes; restart; import with read mode %d", i, len(data), out.writes, readMode)
		if bytes.Count(data, []byte("\nid:"))+1 >= 2 || bytes.Count(data, []byte("---")) >= 1 {
			nontrivial = true
		}
		// restart: drop the live world's twin, rebuild from base + file
		fresh := ingest.NewMutableOverlayWorld(bw)
		sr := &shortReader{rc: rc, data: data, mode: readMode}
		var aerr error
		if !rc.Guard(name+"/panic", func() { _, aerr = ingest.IngestChangesFromYAML(sr).Apply(fresh) }) {
			rc.Notef("exported file:\n%s", clipS(string(data), 3000))
			return
		}
		rc.Fired("restart")
		if sr.n > 0 {
			rc.Fired("short-read")
		}
		if aerr != nil {
			rc.Fail(name+"/import-failed:"+c18ImportErrorKind(aerr.Error()), "applying the exported file to a fresh world over the same base failed: %v\nfile:\n%s", aerr, clipS(string(data), 2500))
			return
		}
		// Tokens() is excluded: it reports what the search index knows,
		// including tokens whose posting lists have become empty, which is
		// a property of the index's history, not an answer about features.
		a, b := Observe(w, ids, full).Without("tokens"), Observe(fresh, ids, full).Without("tokens")
		if d := a.Diff(b, 1); len(d) > 0 {
			rc.Fail(name+"/restarted-world-differs:"+c18DiffClass(d[0]), "after export at step %d and import into a fresh world, the worlds differ:\n%s\nfile:\n%s", i, a.DiffString(b, "edited   ", "restarted"), clipS(string(data), 2500))
			return
		}
		twin = fresh
	}
	rc.SetNontrivial(nontrivial)
	_ = b6.FeatureIDInvalid
}

// c18DiffClass names the class of a difference by its first (most specific)
// differing key: the section, and for search the query.
func c18DiffClass(key string) string {
	if section(key) == "find" {
		return key
	}
	return section(key)
}

// c18ImportErrorKind classifies why an exported file could not be applied,
// so that different causes are different violation classes.
func c18ImportErrorKind(msg string) string {
	switch {
	case strings.Contains(msg, "not closed"):
		return "ring-not-closed"
	case strings.Contains(msg, "expected 3 or more"):
		return "ring-too-short"
	case strings.Contains(msg, "non-existant path"):
		return "area-over-missing-path"
	case strings.Contains(msg, "missing point"):
		return "path-over-missing-point"
	case strings.Contains(msg, "expected 2 or more"):
		return "path-too-short"
	case strings.Contains(msg, "clockwise"), strings.Contains(msg, "invalid loop"):
		return "invalid-ring"
	}
	return "other"
}
