package harness

import (
	"fmt"

	"diagonal.works/b6"
	"diagonal.works/b6/ingest"
)

// C14: snapshots never change after they are taken, while the live world
// reflects the edits.

func init() {
	register(&Scenario{
		Prop: "C14",
		Run:  runC14,
		Real: []string{
			"ingest.MutableOverlayWorld.Snapshot (nested up to depth 3) over basic and compact bases, with its search index, references, modified-tags overlay",
			"ingest.MutableTagsOverlayWorld.Snapshot (nested) over a basic base",
		},
		Stubs: []string{"tag model for 'the live world reflects those edits' (same model as C12)"},
		Assumptions: []string{
			"a writer and up to 3 snapshot holders interleave at operation granularity (the code makes no claim about mutation concurrent with reads); the tape decides who moves next",
			"'answers every query the same way' is the full observation function over the bounded universe, compared with the observation recorded when the snapshot was taken (real versus real, no model)",
		},
		Rule:             "one case = (world type, base kind, history with 1-3 snapshots and edits before/after/between them); non-trivial = at least one snapshot followed by >=2 accepted edits; distinct = distinct hash of the history",
		NontrivialByCase: true,
	})
}

type heldSnapshot struct {
	w      b6.World
	at     int
	record Obs
	checks int
}

func runC14(rc *RC) {
	if rc.Pick(4, 1) == 1 {
		c14TagsOverlay(rc)
		return
	}
	g := newCityGen(rc)
	bk := rc.Draw(bkCount)
	rc.Knob("base-kind", bk)
	g.noBaseCollections = bk == bkCompact
	base := g.baseCity(true)
	bw, err := newBaseWorld(bk, base)
	if err != nil {
		rc.Fail("HARNESS/fixture", "%v", err)
		return
	}
	w := ingest.NewMutableOverlayWorld(bw)
	name := "C14/MutableOverlayWorld over " + baseKindNames[bk]
	rc.Phase(name)
	ids := universe()
	steps := rc.Range(2, 36)
	mix := opMix{invalidPct: 10, richTypes: true, geometryPct: 45}
	var held []*heldSnapshot
	full := obsOpts{}
	editsAfterSnapshot := 0
	// one run in three keeps coming back to one area, relation or collection:
	// added, tagged (searchable keys copy it up), replaced by a different
	// one under the same id, with snapshots taken in between
	focused := rc.Pct(33)
	var focus b6.FeatureID
	if focused {
		t := []b6.FeatureType{b6.FeatureTypeArea, b6.FeatureTypeArea, b6.FeatureTypeRelation, b6.FeatureTypeCollection}[rc.Draw(4)]
		if id, ok := g.freeID(t); ok && rc.Pct(60) {
			focus = id
		} else if ids := g.sortedIDs(t); len(ids) > 0 {
			focus = ids[rc.Draw(len(ids))]
		} else {
			focused = false
		}
		rc.Knob("focus-feature-type", int(t))
	}
	checkHeld := func(h *heldSnapshot, step int, what string) bool {
		now := Observe(h.w, ids, full)
		h.checks++
		if d := h.record.Diff(now, 1); len(d) > 0 {
			rc.Fail(name+"/snapshot-changed:"+section(d[0]), "the snapshot taken before step %d answers differently after step %d (%s):\n%s", h.at, step, what, h.record.DiffString(now, "when taken", "now       "))
			return false
		}
		return true
	}
	for i := 0; i < steps && !rc.Failed(); i++ {
		if len(held) < 3 && rc.Pct(18) {
			var s b6.World
			if !rc.Guard(name+"/panic", func() { s = w.Snapshot() }) {
				return
			}
			h := &heldSnapshot{w: s, at: i}
			h.record = Observe(s, ids, full)
			held = append(held, h)
			rc.Notef("#%d Snapshot() -> held[%d]", i, len(held)-1)
			rc.Case("snapshot", i)
			// the live world must answer like the snapshot right after it was taken
			live := Observe(w, ids, full)
			if d := h.record.Diff(live, 1); len(d) > 0 {
				rc.Fail(name+"/live-differs-right-after-snapshot:"+section(d[0]), "immediately after Snapshot() at step %d the live world and the snapshot disagree:\n%s", i, h.record.DiffString(live, "snapshot", "live    "))
				return
			}
		}
		o := g.genOp(mix)
		if focused && rc.Pct(50) {
			o = c14FocusOp(rc, g, focus)
		}
		rc.Case(o.String())
		var err error
		if !rc.Guard(name+"/panic", func() { err = o.apply(w) }) {
			rc.Notef("#%d %s -> PANIC", i, o)
			return
		}
		rc.Notef("#%d %s -> %v", i, o, err)
		if err == nil {
			if o.Kind != "addtag" && o.Kind != "removetag" || g.specs[o.ID] != nil {
				g.commit(o)
			}
			if len(held) > 0 {
				editsAfterSnapshot++
			}
		}
		// holders take their turns
		for _, h := range held {
			if rc.Pct(35) {
				if !checkHeld(h, i, o.String()) {
					return
				}
			}
		}
		// the live world reflects the edits (tag model)
		if rc.Pct(30) || i == steps-1 {
			got := Observe(w, ids, obsOpts{sections: secs("has", "tags")})
			want := modelObs(g, ids)
			for k := range want {
				if section(k) != "has" && section(k) != "tags" {
					delete(want, k)
				}
			}
			if d := want.Diff(got, 1); len(d) > 0 {
				rc.Fail(name+"/live-world-does-not-reflect-edits:"+section(d[0]), "after step %d (%s) the live world differs from the tag model:\n%s", i, o, want.DiffString(got, "model", "live "))
				return
			}
		}
	}
	for _, h := range held {
		if !checkHeld(h, steps, "end of history") {
			return
		}
	}
	rc.SetNontrivial(len(held) > 0 && editsAfterSnapshot >= 2)
	if len(held) >= 2 {
		rc.Probe("snapshot-nested>=2")
	}
}

// c14FocusOp draws an edit of the focus feature: a replacement (or the
// first addition) by a freshly drawn feature of its type, or a tag edit.
func c14FocusOp(rc *RC, g *cityGen, focus b6.FeatureID) op {
	old := g.specs[focus]
	if old == nil || rc.Pct(40) {
		var s *fspec
		switch focus.Type {
		case b6.FeatureTypeArea:
			s = g.areaSpec(focus)
		case b6.FeatureTypeRelation:
			s = g.relationSpec(focus, false)
		default:
			s = g.collectionSpec(focus)
		}
		if old != nil && rc.Pct(50) {
			s.Tags = append([]tagKV(nil), old.Tags...)
		} else {
			s.Tags = g.someTags(2)
		}
		rc.Probe("focus-feature-replaced")
		return op{Kind: "add", Spec: s}
	}
	if len(old.Tags) > 0 && rc.Pct(25) {
		return op{Kind: "removetag", ID: focus, Key: old.Tags[rc.Draw(len(old.Tags))].K}
	}
	k := g.tagKey(false, rc.Pct(50))
	return op{Kind: "addtag", ID: focus, Key: k, Val: g.tagValue(k)}
}

// c14TagsOverlay: the tags-only overlay world.
func c14TagsOverlay(rc *RC) {
	g := newCityGen(rc)
	base := g.baseCity(true)
	bw, err := newBasicWorld(base)
	if err != nil {
		rc.Fail("HARNESS/fixture", "%v", err)
		return
	}
	w := ingest.NewMutableTagsOverlayWorld(bw)
	name := "C14/MutableTagsOverlayWorld"
	rc.Phase(name)
	ids := universe()
	steps := rc.Range(2, 30)
	var held []*heldSnapshot
	full := obsOpts{}
	edits := 0
	// most runs hold up to three snapshots; one in four goes deep (up to
	// eight layers under the live world, snapshots taken more often)
	maxHeld, snapPct := 3, 20
	if rc.Pct(25) {
		maxHeld, snapPct = 8, 45
	}
	for i := 0; i < steps && !rc.Failed(); i++ {
		if len(held) < maxHeld && rc.Pct(snapPct) {
			var s b6.World
			if !rc.Guard(name+"/panic", func() { s = w.Snapshot() }) {
				return
			}
			h := &heldSnapshot{w: s, at: i, record: Observe(s, ids, full)}
			held = append(held, h)
			rc.Notef("#%d Snapshot() -> held[%d]", i, len(held)-1)
			rc.Case("snapshot", i)
		}
		id, _ := g.anyExistingID()
		k := g.tagKey(false, false)
		if s := g.specs[id]; s != nil && len(s.Tags) > 0 && rc.Pct(40) {
			k = s.Tags[rc.Draw(len(s.Tags))].K
		}
		v := g.tagValue(k)
		rc.Case("addtag", id, k, v)
		if !rc.Guard(name+"/panic", func() { w.AddTag(id, b6.Tag{Key: k, Value: b6.NewStringExpression(v)}) }) {
			return
		}
		rc.Notef("#%d AddTag(%s, %q=%q)", i, id, k, v)
		g.commit(op{Kind: "addtag", ID: id, Key: k, Val: v})
		if len(held) > 0 {
			edits++
		}
		for _, h := range held {
			if rc.Pct(40*3/max(3, len(held))) || i == steps-1 {
				now := Observe(h.w, ids, full)
				if d := h.record.Diff(now, 1); len(d) > 0 {
					rc.Fail(name+"/snapshot-changed:"+section(d[0]), "the snapshot taken before step %d answers differently after step %d (AddTag(%s, %q=%q)):\n%s", h.at, i, id, k, v, h.record.DiffString(now, "when taken", "now       "))
					return
				}
			}
		}
		// live world reflects the edit: the tag reads back
		got := safe(func() string {
			f := w.FindFeatureByID(id)
			if f == nil {
				return "nil"
			}
			return tagsString(f)
		})
		if want := modelTagsString(g.specs[id]); got != want {
			rc.Fail(name+"/live-world-does-not-reflect-edits", "after AddTag(%s, %q=%q) the live world reads %s, expected %s", id, k, v, got, want)
			return
		}
	}
	rc.SetNontrivial(len(held) > 0 && edits >= 2)
	if len(held) >= 2 {
		rc.Probe("snapshot-nested>=2")
	}
	if len(held) >= 5 {
		rc.Probe("snapshot-nested>=5")
	}
	_ = fmt.Sprint
}
