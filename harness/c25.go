package harness

import (
	"context"
	"errors"
	"fmt"
	"strings"

	"diagonal.works/b6"
	"diagonal.works/b6/api"
	"diagonal.works/b6/api/functions"
	"verif/simrt"
)

// C25: map-parallel returns map's results for any core count and schedule;
// on failure a prefix followed by that error; it always terminates.

func init() {
	register(&Scenario{
		Prop:      "C25",
		Preempt:   true,
		Run:       runC25,
		NeedsRace: true,
		Real: []string{
			"api.Evaluate of (map-parallel (verif-source) verif-f) and (map ...) with the real VM, api.Context.Fork, functions.mapParallelCollection (dispatcher, workers, errgroup cancellation, both selects), consumed through Begin/Next/Key/Value",
		},
		Stubs: []string{
			"verif-source (harness, registered in FunctionSymbols): an int collection whose iterator can fail at a chosen position",
			"verif-f (harness, registered in FunctionSymbols): returns g(v), yields slow(v) times to the scheduler, fails for v in the fail set",
		},
		Assumptions: []string{
			"which failing item's error is reported when two fail is not fixed (errgroup keeps the first in time): any injected error is accepted",
			"how long the delivered prefix is on failure is not fixed; it must be a prefix of map's successful prefix (strictly before the first failing index)",
			"leaked worker goroutines after the consumer stops early are not part of the property",
		},
		Rule: "one case = (collection of 0-9 ints, cores 1-6, fail set of 0-2 items, iterator failure position, slow items) under one schedule of dispatcher, workers, waiter and consumer; non-trivial = >=2 scheduling decisions with >=2 runnable tasks; distinct = distinct hash of the schedule trace",
	})
}

type c25Source struct {
	vals   []int
	failAt int // position at which the iterator fails, -1 never
	// itemShape: the failure is reported as (true, err) - "this item failed",
	// as b6's own lazy map / map-items collections report a failing function -
	// instead of (false, err)
	itemShape bool
}

type c25Iter struct {
	s *c25Source
	i int
}

var errSourceIterator = errors.New("injected source iterator error")

func (s *c25Source) Begin() b6.Iterator[any, any] { return &c25Iter{s: s, i: -1} }
func (s *c25Source) Count() (int, bool)           { return len(s.vals), true }

func (it *c25Iter) Next() (bool, error) {
	it.i++
	if it.i == it.s.failAt {
		if it.s.itemShape && it.i < len(it.s.vals) {
			return true, errSourceIterator
		}
		return false, errSourceIterator
	}
	return it.i < len(it.s.vals), nil
}
func (it *c25Iter) Key() any                     { return it.i }
func (it *c25Iter) Value() any                   { return it.s.vals[it.i] }
func (it *c25Iter) KeyExpression() b6.Expression { return b6.NewIntExpression(it.i) }
func (it *c25Iter) ValueExpression() b6.Expression {
	return b6.NewIntExpression(it.s.vals[it.i])
}

type c25Item struct {
	k, v any
}

// c25Look renders a value the mapped function returned; a collection is
// iterated to its end (what a consumer that uses the value does).
func c25Look(v any) any {
	c, ok := v.(b6.UntypedCollection)
	if !ok {
		return v
	}
	var b strings.Builder
	b.WriteString("[")
	it := c.BeginUntyped()
	for n := 0; n < 16; n++ {
		ok, err := it.Next()
		if err != nil {
			fmt.Fprintf(&b, " ERROR(%v)", err)
			break
		}
		if !ok {
			break
		}
		fmt.Fprintf(&b, " %v:%v", it.Key(), it.Value())
	}
	return b.String() + " ]"
}

type c25Errors struct{ item int }

func (e c25Errors) Error() string { return fmt.Sprintf("injected failure on item %d", e.item) }

func runC25(rc *RC) {
	const name = "C25/map-parallel"
	rc.Phase(name)
	n := rc.Range(0, 9)
	if rc.Pct(15) {
		n = rc.Range(10, 24)
	}
	vals := make([]int, n)
	for i := range vals {
		vals[i] = 10 + i // unique values: each result is attributable to one item
	}
	cores := rc.Range(2, 6)
	if rc.Pct(25) {
		cores = []int{1, 7, 8, 9, 12, 16}[rc.Draw(6)]
	}
	fail := map[int]bool{}
	for k := rc.Draw(3); k > 0 && n > 0; k-- {
		fail[vals[rc.Draw(n)]] = true
	}
	src := &c25Source{vals: vals, failAt: -1}
	if rc.Pct(15) {
		src.failAt = rc.Draw(n + 1)
		src.itemShape = rc.Pct(50)
	}
	slowPct := 0
	if rc.Pct(50) {
		slowPct = rc.Range(10, 80)
	}
	if len(fail) > 0 {
		rc.Configured("callback-error")
	}
	if src.failAt >= 0 {
		rc.Configured("iterator-error")
	}
	rc.Knob("cores", cores)
	rc.Case(n, cores, fmt.Sprint(fail), src.failAt, slowPct)
	rc.Notef("collection %v, cores=%d, f fails on %v, source iterator fails at position %d, slow%%=%d", vals, cores, fail, src.failAt, slowPct)

	fs := functions.Functions()
	fs["verif-source"] = func(c *api.Context) (b6.Collection[any, any], error) {
		return b6.Collection[any, any]{AnyCollection: src}, nil
	}
	fs["verif-f"] = func(c *api.Context, v int) (int, error) {
		return c25F(v, fail, slowPct)
	}
	// half of the runs map a lambda with nested calls (deeper VM stacks in
	// the forked per-worker VMs), the others the bare function symbol
	lambda := rc.Pick(4, 3, 1, 1, 1, 2)
	useLambda := lambda > 0
	rc.Knob("lambda", lambda)
	lambdaText := []string{"", "{v -> verif-f (verif-id (verif-id v))}", "{v -> add-ints 100 (verif-f v)}", "{v -> add-ints (verif-id v) (verif-f (verif-id v))}", "{v -> add-ints (verif-f v) (add-ints (verif-id v) (verif-id 7))}",
		// the function returns a lazily evaluated collection that the consumer looks into
		"{v -> verif-pair (verif-f v) | map verif-id}"}[lambda]
	// when the consumer looks into values that are collections: as they arrive, or after the whole result was consumed
	lookLate := rc.Pct(50)
	// how the result is consumed: once; twice in a row; by two iterators of
	// the same collection value moving in turns
	consume := rc.Pick(8, 1, 1)
	rc.Knob("consume", consume)
	fs["verif-pair"] = func(c *api.Context, v int) (b6.Collection[int, int], error) {
		return b6.ArrayCollection[int, int]{Keys: []int{0, 1}, Values: []int{v, v + 1}}.Collection(), nil
	}
	fs["verif-id"] = func(c *api.Context, v int) (int, error) {
		if slowPct > 0 && (v*53)%100 < slowPct {
			simrt.Yield("verif-id.slow")
		}
		return v, nil
	}
	eval := func(fn string, cores int) (items []c25Item, err error, evalErr error) {
		e := b6.NewCallExpression(b6.NewSymbolExpression(fn), []b6.Expression{
			b6.NewCallExpression(b6.NewSymbolExpression("verif-source"), []b6.Expression{}),
			b6.NewSymbolExpression("verif-f"),
		})
		if useLambda {
			var perr error
			e, perr = api.ParseExpression("verif-source | " + fn + " " + lambdaText)
			if perr != nil {
				return nil, nil, fmt.Errorf("parse: %v", perr)
			}
			e = api.Simplify(e, fs)
		}
		ctx := &api.Context{World: b6.EmptyWorld{}, FunctionSymbols: fs, Adaptors: functions.Adaptors(), Context: context.Background()}
		ctx.FillFromOptions(&api.Options{Cores: cores})
		v, eerr := api.Evaluate(e, ctx)
		if eerr != nil {
			return nil, nil, eerr
		}
		c, ok := v.(b6.UntypedCollection)
		if !ok {
			return nil, nil, fmt.Errorf("result is %T, not a collection", v)
		}
		drain := func(it b6.Iterator[any, any], items *[]c25Item, done *bool, rerr *error, max int) {
			for steps := 0; steps < max && !*done; steps++ {
				ok, nerr := it.Next()
				if nerr != nil {
					*rerr, *done = nerr, true
					return
				}
				if !ok {
					*done = true
					return
				}
				v := it.Value()
				if !lookLate || (fn != "map" && consume != 0) {
					v = c25Look(v)
				}
				*items = append(*items, c25Item{it.Key(), v})
			}
		}
		var done bool
		switch {
		case fn == "map" || consume == 0:
			drain(c.BeginUntyped(), &items, &done, &err, 64)
		case consume == 1:
			// the same collection value iterated twice, one after the other
			var first []c25Item
			var firstErr error
			drain(c.BeginUntyped(), &first, &done, &firstErr, 64)
			if !done {
				return first, errors.New("iterator did not end"), nil
			}
			done = false
			drain(c.BeginUntyped(), &items, &done, &err, 64)
			if done && (fmt.Sprint(first) != fmt.Sprint(items) && firstErr == nil && err == nil) {
				return items, nil, fmt.Errorf("second iteration of the same collection yields %v, the first yielded %v", items, first)
			}
			if done && firstErr != nil && err == nil {
				// the second pass must fail as well; report the first pass (it failed)
				return first, nil, nil
			}
		default:
			// two iterators of the same collection value, moving in turns
			a, b := c.BeginUntyped(), c.BeginUntyped()
			var other []c25Item
			var otherDone bool
			var otherErr error
			for steps := 0; steps < 64 && !(done && otherDone); steps++ {
				drain(a, &items, &done, &err, 1+steps%2)
				drain(b, &other, &otherDone, &otherErr, 1+(steps+1)%3)
			}
			if !otherDone {
				return other, errors.New("iterator did not end"), nil
			}
			if done && err == nil && (otherErr != nil || fmt.Sprint(other) != fmt.Sprint(items)) {
				// whatever is wrong with the second iterator is the result to judge
				return other, otherErr, nil
			}
		}
		if !done {
			return items, errors.New("iterator did not end"), nil
		}
		for i := range items {
			items[i].v = c25Look(items[i].v)
		}
		return items, err, nil
	}
	var want, got []c25Item
	var wantErr, gotErr, e1, e2 error
	if !rc.Guard(name+"/panic", func() { want, wantErr, e1 = eval("map", 1) }) {
		return
	}
	if e1 != nil {
		rc.Fail("HARNESS/fixture", "evaluating map: %v", e1)
		return
	}
	rc.Sim(name, func() {
		rc.Guard(name+"/panic", func() { got, gotErr, e2 = eval("map-parallel", cores) })
	})
	if rc.Failed() {
		return
	}
	if e2 != nil {
		rc.Fail(name+"/evaluate-failed", "evaluating map-parallel: %v", e2)
		return
	}
	rc.Notef("map: %v err=%v; map-parallel: %v err=%v", want, wantErr, got, gotErr)
	if wantErr == nil {
		if gotErr != nil {
			rc.Fail(name+"/spurious-error", "map succeeds with %v but map-parallel (cores=%d) fails with %v after %v", want, cores, gotErr, got)
			return
		}
		if fmt.Sprint(got) != fmt.Sprint(want) {
			rc.Fail(name+"/results-differ", "map yields %v but map-parallel (cores=%d) yields %v", want, cores, got)
		}
		return
	}
	if len(fail) > 0 {
		rc.Fired("callback-error")
	} else {
		rc.Fired("iterator-error")
	}
	// failure: a prefix of map's successful prefix, then an injected error
	if gotErr == nil {
		rc.Fail(name+"/reported-success", "map fails with %v after %v, but map-parallel (cores=%d) ended without an error after %v", wantErr, want, cores, got)
		return
	}
	var ce c25Errors
	if !errors.As(gotErr, &ce) && !errors.Is(gotErr, errSourceIterator) {
		rc.Fail(name+"/wrong-error", "map fails with %v; map-parallel (cores=%d) fails with %v, which is none of the injected errors", wantErr, cores, gotErr)
		return
	}
	if len(got) > len(want) || fmt.Sprint(got) != fmt.Sprint(want[:len(got)]) {
		rc.Fail(name+"/not-a-prefix", "map yields %v then fails; map-parallel (cores=%d) yields %v then fails: not a prefix", want, cores, got)
	}
}

func c25F(v int, fail map[int]bool, slowPct int) (int, error) {
	if slowPct > 0 && (v*37)%100 < slowPct {
		for k := 0; k < 1+v%3; k++ {
			simrt.Yield("verif-f.slow")
		}
	}
	if fail[v] {
		return 0, c25Errors{item: v}
	}
	return v * 3, nil
}
